//! C14 — wire-format name decoding matches RFC 1035.
//!
//! Every case is a pair (buffer, start). On it we run
//! `Name::try_from_compressed(buffer, start)` and, when `start <= len`, the
//! five prefix functions on `buffer[start..]`: `skip_compressed`,
//! `try_from_uncompressed(_all)`, `validate_uncompressed(_all)`, and compare
//! with the reference decoders of `model` (cross-checked against qvlib's
//! independent decoder). Only Ok/Err and the returned values are compared;
//! the pairing of error kinds is reported as the outcome class.

use crate::model::{self, WireErr};
use crate::watchdog;
use qvlib::wire::{decode_name, PtrRule};
use qvlib::{catch, hex, json, panic_key, unhex, Ctx, Local, Value};
use std::sync::OnceLock;
use quandary::name::{Error, Name};

/// The 12 significant octets of DESIGN.md §7 C14.
const ALPHA12: [u8; 12] = [0x00, 0x01, 0x02, 0x03, 0x3f, 0x40, 0x7f, 0x80, 0xbf, 0xc0, 0xc1, 0xff];
/// Pointer-dense alphabet: every offset of a short buffer is a pointer
/// target, labels of 1..5 octets fit.
const ALPHA_PTR: [u8; 7] = [0x00, 0x01, 0x02, 0x03, 0x04, 0x05, 0xc0];

fn ek(e: Error) -> &'static str {
    match e {
        Error::ExtraData => "ExtraData",
        Error::InvalidEscape => "InvalidEscape",
        Error::InvalidPointer => "InvalidPointer",
        Error::LabelTooLong => "LabelTooLong",
        Error::NameTooLong => "NameTooLong",
        Error::NonNullTerminal => "NonNullTerminal",
        Error::NullNonTerminal => "NullNonTerminal",
        Error::StrEmpty => "StrEmpty",
        Error::StrNotAscii => "StrNotAscii",
        Error::UnexpectedEom => "UnexpectedEom",
    }
}

fn wk(e: WireErr) -> &'static str {
    match e {
        WireErr::Eom => "Eom",
        WireErr::BadLabel => "BadLabel",
        WireErr::TooLong => "TooLong",
        WireErr::BadPointer => "BadPointer",
        WireErr::Extra => "Extra",
    }
}

fn bucket(n: usize) -> &'static str {
    match n {
        0 => "0",
        1 => "1",
        2 => "2",
        3..=9 => "3-9",
        10..=125 => "10-125",
        126 => "126",
        _ => "127+",
    }
}

fn lenbucket(n: usize) -> &'static str {
    match n {
        0..=1 => "1",
        2..=63 => "2-63",
        64..=253 => "64-253",
        254 => "254",
        _ => "255",
    }
}

const WIRE_ERRS: [WireErr; 5] = [WireErr::Eom, WireErr::BadLabel, WireErr::TooLong, WireErr::BadPointer, WireErr::Extra];
const IMPL_ERRS: [Error; 10] = [
    Error::ExtraData, Error::InvalidEscape, Error::InvalidPointer, Error::LabelTooLong, Error::NameTooLong,
    Error::NonNullTerminal, Error::NullNonTerminal, Error::StrEmpty, Error::StrNotAscii, Error::UnexpectedEom,
];
const FNS: [&str; 6] = ["cmp", "skip", "unc", "unc_all", "val", "val_all"];

/// Outcome-class strings are precomputed (formatting one per evaluated
/// point would dominate the run time).
fn err_class(f: usize, r: WireErr, e: Error) -> &'static str {
    static T: OnceLock<Vec<String>> = OnceLock::new();
    let t = T.get_or_init(|| {
        let mut v = Vec::new();
        for f in FNS {
            for r in WIRE_ERRS {
                for e in IMPL_ERRS {
                    v.push(format!("{f}:err ref={} impl={}", wk(r), ek(e)));
                }
            }
        }
        v
    });
    let ri = WIRE_ERRS.iter().position(|x| *x == r).unwrap();
    let ei = IMPL_ERRS.iter().position(|x| *x == e).unwrap();
    &t[(f * WIRE_ERRS.len() + ri) * IMPL_ERRS.len() + ei]
}

fn bucket_idx(n: usize) -> usize {
    match n {
        0 => 0,
        1 => 1,
        2 => 2,
        3..=9 => 3,
        10..=125 => 4,
        126 => 5,
        _ => 6,
    }
}
const BUCKET_REPR: [usize; 7] = [0, 1, 2, 3, 10, 126, 127];

fn lenbucket_idx(n: usize) -> usize {
    match n {
        0..=1 => 0,
        2..=63 => 1,
        64..=253 => 2,
        254 => 3,
        _ => 4,
    }
}
const LEN_REPR: [usize; 5] = [1, 2, 64, 254, 255];

/// f: 0 = cmp (labels, ptrs, wire), 2 = unc, 3 = unc_all (labels, wire).
fn ok_class(f: usize, labels: usize, ptrs: usize, wire: usize) -> &'static str {
    static T: OnceLock<Vec<String>> = OnceLock::new();
    let t = T.get_or_init(|| {
        let mut v = Vec::new();
        for f in FNS {
            for l in BUCKET_REPR {
                for p in BUCKET_REPR {
                    for w in LEN_REPR {
                        v.push(if f == "cmp" {
                            format!("cmp:ok labels={} ptrs={} wire={}", bucket(l), bucket(p), lenbucket(w))
                        } else {
                            format!("{f}:ok labels={} wire={}", bucket(l), lenbucket(w))
                        });
                    }
                }
            }
        }
        v
    });
    &t[((f * 7 + bucket_idx(labels)) * 7 + bucket_idx(ptrs)) * 5 + lenbucket_idx(wire)]
}

struct Pt<'a> {
    fam: &'a str,
    buf: &'a [u8],
    start: usize,
}

impl Pt<'_> {
    fn case(&self, func: &str, expected: Value, got: Value) -> Value {
        json!({"fam": self.fam, "buf": hex(self.buf), "start": self.start, "fn": func, "expected": expected, "got": got})
    }
}

/// Structural checks of a `Name` the library returned against the labels
/// the reference says it must hold (exercises the unsafe DST construction:
/// label count, label offsets, wire form).
fn name_matches(n: &Name, exp: &[Vec<u8>]) -> Result<(), String> {
    let w = model::to_wire(exp);
    if n.wire_repr() != &w[..] {
        return Err(format!("wire_repr {} != {}", hex(n.wire_repr()), hex(&w)));
    }
    if n.len() != exp.len() + 1 {
        return Err(format!("len {} != {}", n.len(), exp.len() + 1));
    }
    for (i, l) in exp.iter().enumerate() {
        if n[i].octets() != &l[..] {
            return Err(format!("label {i}: {} != {}", hex(n[i].octets()), hex(l)));
        }
    }
    if !n[exp.len()].is_null() {
        return Err("last label is not null".into());
    }
    let fwd: Vec<&[u8]> = n.labels().map(|l| l.octets()).collect();
    let mut back: Vec<&[u8]> = n.labels().rev().map(|l| l.octets()).collect();
    back.reverse();
    if fwd.len() != exp.len() + 1 || fwd != back {
        return Err("labels() iteration inconsistent".into());
    }
    let c = n.to_owned();
    if c.wire_repr() != n.wire_repr() || c.len() != n.len() {
        return Err("clone differs".into());
    }
    Ok(())
}

/// Runs every function on one (buffer, start) point.
fn check_point(l: &mut Local, fam: &str, buf: &[u8], start: usize, suffix_fns: bool) {
    let pt = Pt { fam, buf, start };
    l.tick();

    // ---- try_from_compressed
    let reference = model::decode_compressed(buf, start);
    // Second, separately written oracle; the two must agree everywhere.
    let second = decode_name(buf, start, PtrRule::BeforeChunkStart);
    let agree = match (&reference, &second) {
        (Ok(a), Ok(b)) => model::to_wire(&a.name) == b.name && a.first_chunk_len == b.first_chunk_len && a.pointers == b.pointers.len(),
        (Err(_), Err(_)) => true,
        _ => false,
    };
    if !agree {
        l.violation("ORACLE:decoders-disagree", pt.case("oracle", json!(format!("{:?}", reference.as_ref().map(|d| (&d.name, d.first_chunk_len)))), json!(format!("{:?}", second.as_ref().map(|d| (&d.name, d.first_chunk_len))))));
    }
    match catch(|| Name::try_from_compressed(buf, start)) {
        Err(p) => l.violation(&format!("cmp:{}", panic_key(&p)), pt.case("try_from_compressed", json!("no panic"), json!(p))),
        Ok(Ok((name, len))) => match &reference {
            Ok(d) => {
                if len != d.first_chunk_len {
                    l.violation("cmp:first-chunk-len", pt.case("try_from_compressed", json!(d.first_chunk_len), json!(len)));
                }
                if let Err(why) = name_matches(&name, &d.name) {
                    l.violation("cmp:name", pt.case("try_from_compressed", json!(hex(&model::to_wire(&d.name))), json!(why)));
                }
                let w = model::wire_len(&d.name);
                l.outcome(
                    ok_class(0, d.name.len(), d.pointers, w),
                    || json!({"buf": hex(&buf[..buf.len().min(64)]), "buflen": buf.len(), "start": start, "name": model::name_text(&d.name)}),
                );
            }
            Err(e) => l.violation(&format!("cmp:accepts-{}", wk(*e)), pt.case("try_from_compressed", json!(format!("Err({})", wk(*e))), json!(format!("Ok(({}, {len}))", hex(name.wire_repr()))))),
        },
        Ok(Err(e)) => match &reference {
            Ok(d) => l.violation(&format!("cmp:rejects-{}", ek(e)), pt.case("try_from_compressed", json!(format!("Ok(({}, {}))", hex(&model::to_wire(&d.name)), d.first_chunk_len)), json!(format!("Err({})", ek(e))))),
            Err(r) => {
                l.outcome(err_class(0, *r, e), || json!({"buf": hex(&buf[..buf.len().min(64)]), "buflen": buf.len(), "start": start}));
            }
        },
    }

    if !suffix_fns || start > buf.len() {
        return;
    }
    let s = &buf[start..];

    // ---- skip_compressed: judged by the first chunk alone.
    let skip_ref = model::skip_first_chunk(s);
    if let (Ok(d), Ok(k)) = (&reference, &skip_ref) {
        // The full decoder succeeded: its first-chunk length is the skip length.
        if d.first_chunk_len != *k {
            l.violation("ORACLE:skip-vs-decode", pt.case("oracle", json!(d.first_chunk_len), json!(k)));
        }
    }
    if reference.is_ok() && skip_ref.is_err() {
        l.violation("ORACLE:skip-rejects-decodable", pt.case("oracle", json!("Ok"), json!(format!("{skip_ref:?}"))));
    }
    match catch(|| Name::skip_compressed(s)) {
        Err(p) => l.violation(&format!("skip:{}", panic_key(&p)), pt.case("skip_compressed", json!("no panic"), json!(p))),
        Ok(got) => match (got, skip_ref) {
            (Ok(g), Ok(k)) => {
                if g != k {
                    l.violation("skip:len", pt.case("skip_compressed", json!(k), json!(g)));
                }
                let ends_in_pointer = !first_chunk_ends_in_root(s, k);
                l.outcome(
                    match (ends_in_pointer, reference.is_ok()) {
                        (true, true) => "skip:ok pointer decodable=true",
                        (true, false) => "skip:ok pointer decodable=false",
                        (false, true) => "skip:ok root decodable=true",
                        (false, false) => "skip:ok root decodable=false",
                    },
                    || json!({"buf": hex(&buf[..buf.len().min(64)]), "start": start, "len": k}),
                );
            }
            (Err(e), Err(r)) => l.outcome(err_class(1, r, e), || json!({"buf": hex(&buf[..buf.len().min(64)]), "start": start})),
            (Ok(g), Err(r)) => {
                let key = if g > s.len() { "skip:ok-beyond-buffer".to_string() } else { format!("skip:accepts-{}", wk(r)) };
                l.violation(&key, pt.case("skip_compressed", json!(format!("Err({})", wk(r))), json!(format!("Ok({g}) with {} octets available", s.len()))));
            }
            (Err(e), Ok(k)) => l.violation(&format!("skip:rejects-{}", ek(e)), pt.case("skip_compressed", json!(format!("Ok({k})")), json!(format!("Err({})", ek(e))))),
        },
    }

    // ---- uncompressed parsing and validation
    for all in [false, true] {
        let r = model::decode_uncompressed(s, all);
        // An uncompressed name is also a compressed name without pointers.
        if let Ok((n, k)) = &r {
            match &reference {
                Ok(d) if d.name == *n && d.first_chunk_len == *k && d.pointers == 0 => {}
                _ => l.violation("ORACLE:uncompressed-vs-compressed", pt.case("oracle", json!(hex(&model::to_wire(n))), json!(format!("{:?}", reference.as_ref().map(|d| &d.name))))),
            }
        }
        let fname = if all { "try_from_uncompressed_all" } else { "try_from_uncompressed" };
        let got = catch(|| {
            if all {
                Name::try_from_uncompressed_all(s).map(|n| {
                    let k = n.wire_repr().len();
                    (n, k)
                })
            } else {
                Name::try_from_uncompressed(s)
            }
        });
        match got {
            Err(p) => l.violation(&format!("unc:{}", panic_key(&p)), pt.case(fname, json!("no panic"), json!(p))),
            Ok(Ok((name, k))) => match &r {
                Ok((n, rk)) => {
                    if k != *rk {
                        l.violation("unc:len", pt.case(fname, json!(rk), json!(k)));
                    }
                    if let Err(why) = name_matches(&name, n) {
                        l.violation("unc:name", pt.case(fname, json!(hex(&model::to_wire(n))), json!(why)));
                    }
                    l.outcome(ok_class(if all { 3 } else { 2 }, n.len(), 0, *rk), || json!({"buf": hex(&s[..s.len().min(64)]), "len": rk}));
                }
                Err(e) => l.violation(&format!("unc:accepts-{}", wk(*e)), pt.case(fname, json!(format!("Err({})", wk(*e))), json!(format!("Ok(({}, {k}))", hex(name.wire_repr()))))),
            },
            Ok(Err(e)) => match &r {
                Ok((n, rk)) => l.violation(&format!("unc:rejects-{}", ek(e)), pt.case(fname, json!(format!("Ok(({}, {rk}))", hex(&model::to_wire(n)))), json!(format!("Err({})", ek(e))))),
                Err(re) => l.outcome(err_class(if all { 3 } else { 2 }, *re, e), || json!({"buf": hex(&s[..s.len().min(64)])})),
            },
        }

        let vname = if all { "validate_uncompressed_all" } else { "validate_uncompressed" };
        let got = catch(|| if all { Name::validate_uncompressed_all(s).map(|()| s.len()) } else { Name::validate_uncompressed(s) });
        match got {
            Err(p) => l.violation(&format!("val:{}", panic_key(&p)), pt.case(vname, json!("no panic"), json!(p))),
            Ok(Ok(k)) => match &r {
                Ok((_, rk)) => {
                    if k != *rk {
                        l.violation("val:len", pt.case(vname, json!(rk), json!(k)));
                    }
                    l.outcome(if all { "val_all:ok" } else { "val:ok" }, || json!({"buf": hex(&s[..s.len().min(64)]), "len": rk}));
                }
                Err(e) => l.violation(&format!("val:accepts-{}", wk(*e)), pt.case(vname, json!(format!("Err({})", wk(*e))), json!(format!("Ok({k})")))),
            },
            Ok(Err(e)) => match &r {
                Ok((_, rk)) => l.violation(&format!("val:rejects-{}", ek(e)), pt.case(vname, json!(format!("Ok({rk})")), json!(format!("Err({})", ek(e))))),
                Err(re) => l.outcome(err_class(if all { 5 } else { 4 }, *re, e), || json!({"buf": hex(&s[..s.len().min(64)])})),
            },
        }
    }
}

/// Whether the first chunk of `s`, of length `k`, ends with the root label
/// (as opposed to a pointer whose low octet happens to be 0).
fn first_chunk_ends_in_root(s: &[u8], k: usize) -> bool {
    let mut p = 0;
    loop {
        let o = s[p] as usize;
        if o >= 0xc0 {
            return false;
        }
        if o == 0 {
            return p + 1 == k;
        }
        p += 1 + o;
    }
}

fn all_starts(l: &mut Local, fam: &str, buf: &[u8], suffix_fns_everywhere: bool) {
    watchdog::enter_buffer(fam, buf);
    for start in 0..=buf.len() + 1 {
        watchdog::enter_start(start);
        check_point(l, fam, buf, start, suffix_fns_everywhere || start == 0);
    }
    watchdog::leave();
}

// ------------------------------------------------ family A: exhaustive

/// All buffers of length <= `max_len` over `alphabet`, every start. The space
/// is closed under taking suffixes, so the prefix functions are run on the
/// whole buffer only.
fn exhaustive(ctx: &Ctx, fam: &str, alphabet: &[u8], max_len: usize) -> u64 {
    let a = alphabet.len();
    let total = std::sync::atomic::AtomicU64::new(0);
    // Shard 0: lengths 0 and 1; shards 1..: a fixed 2-octet prefix.
    ctx.par_shards(1 + a * a, |l, shard| {
        let mut n = 0u64;
        if shard == 0 {
            all_starts(l, fam, &[], false);
            n += 1;
            for &x in alphabet {
                all_starts(l, fam, &[x], false);
                n += 1;
            }
        } else if max_len >= 2 {
            let p = shard - 1;
            let prefix = [alphabet[p / a], alphabet[p % a]];
            for len in 2..=max_len {
                let mut buf = vec![0u8; len];
                buf[..2].copy_from_slice(&prefix);
                qvlib::enumerate::for_each_seq_exact(a, len - 2, |s| {
                    for (i, k) in s.iter().enumerate() {
                        buf[2 + i] = alphabet[*k];
                    }
                    all_starts(l, fam, &buf, false);
                    n += 1;
                    true
                });
            }
        }
        total.fetch_add(n, std::sync::atomic::Ordering::Relaxed);
    });
    total.into_inner()
}

// ------------------------------------------------ family B: structured

#[derive(Clone, Copy, PartialEq)]
enum Mode {
    /// every start of the buffer as is
    Starts,
    /// every start of every proper prefix of the buffer
    Truncations,
    /// every start of every single-octet substitution (12 significant
    /// octets) at positions lo..hi
    Mutations(usize, usize),
    /// the starts lo..hi only (buffers of more than 64 KiB)
    Range(usize, usize),
}

struct Item {
    fam: String,
    buf: Vec<u8>,
    mode: Mode,
}

/// Wire labels with the given lengths (no root), label i filled with a
/// letter depending on i so that misplaced copies are visible.
fn labels_wire(lens: &[usize], salt: usize) -> Vec<u8> {
    let mut w = Vec::new();
    for (i, &n) in lens.iter().enumerate() {
        w.push(n as u8);
        let fill = if (i + salt) % 5 == 4 { b'A' + ((i + salt) % 26) as u8 } else { b'a' + ((i + salt) % 26) as u8 };
        w.extend(std::iter::repeat(fill).take(n));
    }
    w
}

/// Label lengths whose wire form (with the root) is exactly `total` octets,
/// made of labels of `m` octets plus one shorter/longer label.
fn lens_for(total: usize, m: usize) -> Option<Vec<usize>> {
    let body = total - 1;
    let q = body / (m + 1);
    let rem = body - q * (m + 1);
    let mut v = vec![m; q];
    match rem {
        0 => {}
        1 => {
            // one label one octet longer (may be 64: deliberately invalid)
            if v.is_empty() {
                return None;
            }
            v[0] = m + 1;
        }
        r => v.insert(0, r - 1),
    }
    Some(v)
}

fn ptr(to: usize) -> [u8; 2] {
    [0xc0 | (to >> 8) as u8, to as u8]
}

fn structured_items(ctx: &Ctx) -> Vec<Item> {
    let mut items: Vec<Item> = Vec::new();
    let thorough = !ctx.quick();
    let mut add = |fam: String, buf: Vec<u8>, modes: &[Mode]| {
        for m in modes {
            match *m {
                Mode::Mutations(lo, hi) => {
                    // split into slices of positions for load balance
                    let step = 16;
                    let mut p = lo;
                    while p < hi {
                        items.push(Item { fam: fam.clone(), buf: buf.clone(), mode: Mode::Mutations(p, (p + step).min(hi)) });
                        p += step;
                    }
                }
                m => items.push(Item { fam: fam.clone(), buf: buf.clone(), mode: m }),
            }
        }
    };

    // B1: names at the 255-octet limit, contiguous and split in 2 and 3 chunks.
    for m in [1usize, 2, 3, 31, 62, 63] {
        for total in 252..=257usize {
            let Some(lens) = lens_for(total, m) else { continue };
            let body = labels_wire(&lens, m);
            // contiguous, followed by junk
            let mut b = body.clone();
            b.push(0);
            b.extend_from_slice(&[0xc0, 0x00, 0x07]);
            let mutate = (m == 1 || m == 63) && (total == 255 || total == 256);
            let n = b.len();
            let mut modes = vec![Mode::Starts, Mode::Truncations];
            if mutate || thorough {
                modes.push(Mode::Mutations(0, n));
            }
            add(format!("limit:contig m={m} total={total}"), b, &modes);
            // two chunks: the last labels first, then the head + pointer
            let nl = lens.len();
            for cut in [1, nl / 2, nl - 1] {
                if cut == 0 || cut >= nl {
                    continue;
                }
                let head = labels_wire(&lens[..cut], m);
                let mut tail = labels_wire(&lens[cut..], m + cut);
                tail.push(0);
                let mut b = tail.clone();
                b.extend_from_slice(&head);
                b.extend_from_slice(&ptr(0));
                b.push(0x01);
                let n = b.len();
                let mut modes = vec![Mode::Starts, Mode::Truncations];
                if (mutate && cut == nl / 2) || (thorough && cut == nl / 2) {
                    modes.push(Mode::Mutations(0, n));
                }
                add(format!("limit:2chunks m={m} total={total} cut={cut}"), b, &modes);
            }
            // three chunks
            if nl >= 3 {
                let (c1, c2) = (nl / 3, 2 * nl / 3);
                let mut b = labels_wire(&lens[c2..], m + c2);
                b.push(0);
                let mid_at = b.len();
                b.extend_from_slice(&labels_wire(&lens[c1..c2], m + c1));
                b.extend_from_slice(&ptr(0));
                let head_at = b.len();
                b.extend_from_slice(&labels_wire(&lens[..c1], m));
                b.extend_from_slice(&ptr(mid_at));
                let _ = head_at;
                add(format!("limit:3chunks m={m} total={total}"), b, &[Mode::Starts, Mode::Truncations]);
            }
        }
    }

    // B2: every value of a length octet, with contents one short / exact /
    // one over / 64 / 65 octets, after a root at offset 0.
    for first in 0..=255usize {
        for filler in [0x00u8, 0x61] {
            let want = first.min(63);
            let mut ks = vec![want.saturating_sub(1), want, want + 1, 64, 65];
            ks.sort();
            ks.dedup();
            for k in ks {
                let mut b = vec![0x00, first as u8];
                b.extend(std::iter::repeat(filler).take(k));
                b.push(0);
                add(format!("lenoctet:{first:#04x} filler={filler:#04x} k={k}"), b, &[Mode::Starts]);
            }
        }
    }

    // B3: pointer chains of every depth up to 130 (one buffer holds every
    // depth: chunk i points to chunk i-1), with 0/1/2-octet labels per chunk.
    for per in [0usize, 1, 2] {
        for base in [&b"\x00"[..], &b"\x02ab\x00"[..], &b"\x3f???????????????????????????????????????????????????????????????\x00"[..]] {
            let depth = if per == 2 { 119 } else { 130 };
            let mut b = base.to_vec();
            let mut prev = 0usize;
            for i in 0..depth {
                let at = b.len();
                if per > 0 {
                    b.extend_from_slice(&labels_wire(&[per], i));
                }
                b.extend_from_slice(&ptr(prev));
                prev = at;
            }
            let n = b.len();
            let mut modes = vec![Mode::Starts, Mode::Truncations];
            if thorough && base.len() == 1 {
                modes.push(Mode::Mutations(0, n));
            }
            add(format!("chain:per={per} base={}", base.len()), b, &modes);
        }
    }

    // B4: pointer-target sweep: two pointers whose targets range over every
    // offset of the buffer and beyond (self, own chunk start, middle of a
    // label, another pointer, forward, far forward).
    for t in 0..=17usize {
        for u in 0..=17usize {
            for hi in [0xc0u8, 0xc1, 0xff] {
                let mut b = b"\x03abc\x01d\x00".to_vec(); // 0..6
                b.extend_from_slice(b"\x02xy"); // 7..9
                b.extend_from_slice(&[0xc0, t as u8]); // 10,11
                b.extend_from_slice(b"\x01z"); // 12,13
                b.extend_from_slice(&[hi, u as u8]); // 14,15
                add(format!("ptrsweep:t={t} u={u} hi={hi:#04x}"), b, &[Mode::Starts]);
            }
        }
    }

    // B5: 126/127/128 one-octet labels, and 2-octet tails.
    for nlabels in [125usize, 126, 127, 128] {
        let mut b = labels_wire(&vec![1; nlabels], 0);
        b.push(0);
        add(format!("nlabels:{nlabels}"), b.clone(), &[Mode::Starts, Mode::Truncations]);
        // same, reached through a pointer from a trailing chunk holding k labels
        for k in [1usize, 2] {
            let mut c = b.clone();
            let at = c.len();
            c.extend_from_slice(&labels_wire(&vec![1; k], 3));
            // point into the big name so that exactly `nlabels` labels result
            c.extend_from_slice(&ptr(2 * k));
            let _ = at;
            add(format!("nlabels:{nlabels} via-pointer k={k}"), c, &[Mode::Starts]);
        }
    }

    // B7: first chunks at the skip limit: 252..256 octets of labels followed
    // by a pointer to a root (a 255-octet name needs 254 + pointer = 256
    // octets of first chunk) and by a pointer to a one-label name.
    for m in [1usize, 2, 62, 63] {
        for body in 251..=256usize {
            let Some(lens) = lens_for(body + 1, m) else { continue };
            for base in [&b"\x00"[..], &b"\x01q\x00"[..]] {
                let mut b = base.to_vec();
                b.extend_from_slice(&labels_wire(&lens, m));
                b.extend_from_slice(&ptr(0));
                add(format!("skiplimit:m={m} body={body} base={}", base.len()), b, &[Mode::Starts, Mode::Truncations]);
            }
        }
    }

    // B8: offsets beyond what 14 and 16 bits can hold. One 140 000-octet
    // buffer with small names at pointer-reachable offsets (0, 7, 200, 0x3ffd)
    // and, in nine regions around multiples of 16 384 and 65 536, groups of
    // "01 'z' + pointer" whose targets cycle over those names, the root octet
    // at 0x3fff, a label interior and an empty region; every start of each
    // region is decoded (the group start, the bare pointer, and the junk in
    // between).
    {
        let mut b = vec![0u8; 140_000];
        b[0..7].copy_from_slice(b"\x03abc\x01d\x00");
        b[7..11].copy_from_slice(b"\x02xy\x00");
        b[200..203].copy_from_slice(b"\x01q\x00");
        b[0x3ffd..0x4000].copy_from_slice(b"\x01r\x00");
        let targets = [0usize, 4, 7, 200, 0x3ffd, 0x3fff, 2, 300, 0x3ffe, 202];
        let regions = [16_370usize, 32_760, 49_150, 65_520, 65_536 + 190, 81_910, 98_300, 131_060, 139_900];
        for &base in &regions {
            for (i, &tg) in targets.iter().enumerate() {
                let at = base + 4 * i;
                b[at] = 1;
                b[at + 1] = b'z';
                b[at + 2..at + 4].copy_from_slice(&ptr(tg));
            }
        }
        for &base in &regions {
            add(format!("far:region={base}"), b.clone(), &[Mode::Range(base.saturating_sub(2), base + 4 * targets.len() + 2)]);
        }
        add("far:end".into(), b.clone(), &[Mode::Range(139_990, 140_002)]);
    }

    // B6: real messages (52 request templates with compressed names).
    for t in qvlib::templates::requests() {
        let n = t.bytes.len();
        let mut modes = vec![Mode::Starts, Mode::Truncations];
        if n <= 80 || (thorough && n <= 320) {
            modes.push(Mode::Mutations(0, n));
        }
        add(format!("msg:{}", t.name), t.bytes.clone(), &modes);
    }
    items
}

fn run_item(l: &mut Local, it: &Item) {
    match it.mode {
        Mode::Starts => all_starts(l, &it.fam, &it.buf, true),
        Mode::Truncations => {
            for cut in 0..it.buf.len() {
                all_starts(l, &it.fam, &it.buf[..cut], true);
            }
        }
        Mode::Range(lo, hi) => {
            watchdog::enter_buffer(&it.fam, &it.buf);
            for start in lo..hi {
                watchdog::enter_start(start);
                check_point(l, &it.fam, &it.buf, start, true);
            }
            watchdog::leave();
        }
        Mode::Mutations(lo, hi) => {
            let mut b = it.buf.clone();
            for pos in lo..hi {
                let orig = b[pos];
                for &x in ALPHA12.iter() {
                    if x == orig {
                        continue;
                    }
                    b[pos] = x;
                    all_starts(l, &it.fam, &b, true);
                }
                b[pos] = orig;
            }
        }
    }
}

// ------------------------------------------------------------ entry

const RULE: &str = "every buffer of length <= N over the 12 significant octets {00,01,02,03,3f,40,7f,80,bf,c0,c1,ff} and over the pointer-dense alphabet {00..05,c0}, at every start offset 0..=len+1; plus structured buffers up to ~600 octets (names of 252..257 octets in 1/2/3 chunks, every length-octet value, pointer chains of depth 0..130, pointer-target sweeps, 125..128 labels, first chunks of 252..258 octets ending in a pointer, 52 request messages) at every start, with every truncation and every single-octet substitution by a significant octet; plus one 140 000-octet buffer decoded at every start of nine regions around multiples of 16 384 and 65 536 holding names that point back to offsets <= 0x3fff; oracle = own RFC 1035 §4.1.4 decoder (pointer target < start of its chunk), cross-checked against qvlib's decoder; compared: Ok/Err, decoded name octet for octet, first-chunk length, label structure of the returned Name; a call that does not return within 10 s is reported by a watchdog";

pub fn run(ctx: Ctx) -> ! {
    model::self_test();
    // Non-termination is a violation too ("terminates without panicking").
    watchdog::spawn_monitor("C14", std::time::Duration::from_secs(60));
    if let Some(case) = ctx.replay_case() {
        let buf = unhex(case["buf"].as_str().unwrap_or(""));
        let start = case["start"].as_u64().unwrap_or(0) as usize;
        let fam = case["fam"].as_str().unwrap_or("replay").to_string();
        let mut l = ctx.local();
        watchdog::enter_buffer(&fam, &buf);
        watchdog::enter_start(start);
        check_point(&mut l, &fam, &buf, start, true);
        watchdog::leave();
        drop(l);
        eprintln!("replayed {} start={start}: {} violation(s)", hex(&buf), ctx.violation_count());
        ctx.finish("exploration", RULE, false);
    }

    let n12 = ctx.pick(6, 7);
    let nptr = ctx.pick(7, 9);
    let b12 = exhaustive(&ctx, "exh12", &ALPHA12, n12);
    ctx.set_extra("wall_s_exh12", json!(ctx.elapsed_s()));
    let bptr = exhaustive(&ctx, "exhptr", &ALPHA_PTR, nptr);
    ctx.set_extra("wall_s_exh12_exhptr", json!(ctx.elapsed_s()));
    ctx.set_extra("exhaustive_alphabet12_max_len", json!(n12));
    ctx.set_extra("exhaustive_alphabet12_buffers", json!(b12));
    ctx.set_extra("exhaustive_pointer_alphabet_max_len", json!(nptr));
    ctx.set_extra("exhaustive_pointer_alphabet_buffers", json!(bptr));

    let items = structured_items(&ctx);
    ctx.set_extra("structured_work_items", json!(items.len()));
    ctx.par_for_each(&items, |l, it| run_item(l, it));

    ctx.assume("pointer rule: a pointer must target an offset before the start of the chunk containing it (DESIGN.md §7a)");
    ctx.assume("skip_compressed is judged by the first chunk alone: labels <= 63, chunk (terminator included) inside the buffer, labels + root <= 255");
    ctx.assume("error kinds are not compared (order of detection is free); only Ok/Err and returned values");
    ctx.finish("exploration", RULE, true);
}
