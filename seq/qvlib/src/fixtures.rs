//! Fixture zones, catalogs and server configurations shared by the
//! server-level checks. Everything is built from plain `Rec` lists so the
//! reference models can read the same data.

use std::collections::HashMap;
use std::sync::Arc;

use quandary::class::Class;
use quandary::db::catalog::Entry;
use quandary::db::zone::GluePolicy;
use quandary::db::{HashMapTreeZone, SingleZoneCatalog};
use quandary::message::tsig::Algorithm;
use quandary::server::{RrlParams, Server, TsigKeyMap};

use crate::qd::{self, Cat, Rec};
use crate::reftsig::Alg;
use crate::templates::{KEY1_NAME, KEY1_SECRET, KEY2_NAME, KEY2_SECRET};
use crate::wire::{c, t, wname};

pub fn soa_rdata(mname: &str, rname: &str, serial: u32, refresh: u32, retry: u32, expire: u32, minimum: u32) -> Vec<u8> {
    let mut r = wname(mname);
    r.extend_from_slice(&wname(rname));
    for v in [serial, refresh, retry, expire, minimum] {
        r.extend_from_slice(&v.to_be_bytes());
    }
    r
}

pub fn mx_rdata(pref: u16, host: &str) -> Vec<u8> {
    let mut r = pref.to_be_bytes().to_vec();
    r.extend_from_slice(&wname(host));
    r
}

pub fn srv_rdata(prio: u16, weight: u16, port: u16, target: &str) -> Vec<u8> {
    let mut r = Vec::new();
    for v in [prio, weight, port] {
        r.extend_from_slice(&v.to_be_bytes());
    }
    r.extend_from_slice(&wname(target));
    r
}

pub fn txt_rdata(strings: &[&[u8]]) -> Vec<u8> {
    let mut r = Vec::new();
    for s in strings {
        r.push(s.len() as u8);
        r.extend_from_slice(s);
    }
    r
}

/// The standard fixture zone `t.` (class IN): SOA/NS/MX at the apex, address
/// records, a wildcard, CNAME chains and loops, a delegation with glue, SRV,
/// a large TXT RRset, an empty non-terminal.
pub fn std_zone_recs() -> Vec<Rec> {
    let r = |o: &str, ty: u16, ttl: u32, rd: Vec<u8>| Rec::new(&wname(o), ty, c::IN, ttl, &rd);
    let mut v = vec![
        r("t.", t::SOA, 3600, soa_rdata("ns.t.", "admin.t.", 1, 3600, 600, 86400, 300)),
        r("t.", t::NS, 3600, wname("ns.t.")),
        r("t.", t::NS, 3600, wname("ns2.u.")),
        r("t.", t::MX, 300, mx_rdata(10, "mail.t.")),
        r("ns.t.", t::A, 300, vec![192, 0, 2, 1]),
        r("ns.t.", t::AAAA, 300, vec![0x20, 1, 0xd, 0xb8, 0, 0, 0, 0, 0, 0, 0, 0, 0, 0, 0, 1]),
        r("mail.t.", t::A, 300, vec![192, 0, 2, 2]),
        r("a.t.", t::A, 60, vec![192, 0, 2, 10]),
        r("a.t.", t::A, 60, vec![192, 0, 2, 11]),
        r("a.t.", t::TXT, 60, txt_rdata(&[b"hello"])),
        r("*.w.t.", t::A, 60, vec![192, 0, 2, 20]),
        r("c.t.", t::CNAME, 60, wname("a.t.")),
        r("c2.t.", t::CNAME, 60, wname("c.t.")),
        r("loop1.t.", t::CNAME, 60, wname("loop2.t.")),
        r("loop2.t.", t::CNAME, 60, wname("loop1.t.")),
        r("out.t.", t::CNAME, 60, wname("x.u.")),
        r("d.t.", t::NS, 600, wname("ns.d.t.")),
        r("d.t.", t::NS, 600, wname("ns.t.")),
        r("ns.d.t.", t::A, 600, vec![192, 0, 2, 30]),
        r("_s._tcp.t.", t::SRV, 60, srv_rdata(1, 2, 53, "a.t.")),
        r("e.n.t.", t::A, 60, vec![192, 0, 2, 40]),
    ];
    // big.t. TXT: 8 strings of 200 octets -> > 1232 octets of answer.
    for i in 0..8u8 {
        v.push(r("big.t.", t::TXT, 60, txt_rdata(&[&vec![b'a' + i; 200]])));
    }
    v
}

pub fn std_zone() -> HashMapTreeZone {
    qd::build_zone(&wname("t."), c::IN, GluePolicy::Narrow, &std_zone_recs()).expect("fixture zone")
}

/// A zone without SOA (negative answers cannot be built).
pub fn nosoa_zone() -> HashMapTreeZone {
    let recs = vec![
        Rec::new(&wname("t."), t::NS, c::IN, 60, &wname("ns.t.")),
        Rec::new(&wname("a.t."), t::A, c::IN, 60, &[192, 0, 2, 10]),
    ];
    qd::build_zone(&wname("t."), c::IN, GluePolicy::Narrow, &recs).unwrap()
}

/// A zone whose name-bearing RDATA is malformed in various ways (the zone
/// API does not validate RDATA).
pub fn malformed_zone() -> HashMapTreeZone {
    let mut junk_ns = wname("ns.t.");
    junk_ns.extend_from_slice(b"junk");
    let recs = vec![
        Rec::new(&wname("t."), t::SOA, c::IN, 60, &[1, 2, 3]),
        Rec::new(&wname("t."), t::NS, c::IN, 60, &junk_ns),
        Rec::new(&wname("t."), t::MX, c::IN, 60, &[0]),
        Rec::new(&wname("a.t."), t::A, c::IN, 60, &[1, 2, 3]),
        Rec::new(&wname("a.t."), t::MX, c::IN, 60, &[0, 1, 3, b'x']),
        Rec::new(&wname("c.t."), t::CNAME, c::IN, 60, &[5, b'a']),
        Rec::new(&wname("d.t."), t::NS, c::IN, 60, &[0xc0, 0x0c]),
        Rec::new(&wname("s.t."), t::SRV, c::IN, 60, &[0, 1, 0, 2]),
        Rec::new(&wname("x.t."), t::TXT, c::IN, 60, &[9, b'a']),
        Rec::new(&wname("e.t."), t::NS, c::IN, 60, &[]),
    ];
    qd::build_zone(&wname("t."), c::IN, GluePolicy::Narrow, &recs).unwrap()
}

/// A Chaosnet zone (CH A RDATA embeds an uncompressible name).
pub fn ch_zone() -> HashMapTreeZone {
    let mut cha = wname("host.t.");
    cha.extend_from_slice(&[0o1, 0o2]);
    let recs = vec![
        Rec::new(&wname("t."), t::SOA, c::CH, 60, &soa_rdata("ns.t.", "admin.t.", 1, 2, 3, 4, 5)),
        Rec::new(&wname("t."), t::NS, c::CH, 60, &wname("ns.t.")),
        Rec::new(&wname("ns.t."), t::A, c::CH, 60, &cha),
        Rec::new(&wname("a.t."), t::TXT, c::CH, 60, &txt_rdata(&[b"chaos"])),
    ];
    qd::build_zone(&wname("t."), c::CH, GluePolicy::Narrow, &recs).unwrap()
}

/// Named catalogs covering the shapes C01 lists.
pub fn catalogs() -> Vec<(&'static str, Cat)> {
    let mut out: Vec<(&'static str, Cat)> = Vec::new();
    out.push(("empty", Cat::new()));
    out.push(("std", qd::catalog_of(vec![std_zone()])));
    out.push(("std+ch", qd::catalog_of(vec![std_zone(), ch_zone()])));
    out.push(("nosoa", qd::catalog_of(vec![nosoa_zone()])));
    out.push(("malformed", qd::catalog_of(vec![malformed_zone()])));
    let mut c1 = Cat::new();
    c1.insert(Entry::NotYetLoaded(qd::qname(&wname("t.")), Class::IN, ()));
    out.push(("notyetloaded", c1));
    let mut c2 = Cat::new();
    c2.insert(Entry::FailedToLoad(qd::qname(&wname("t.")), Class::IN, ()));
    c2.insert(qd::loaded(qd::build_zone(&wname("a.t."), c::IN, GluePolicy::Narrow, &[Rec::new(&wname("a.t."), t::A, c::IN, 1, &[1, 2, 3, 4])]).unwrap()));
    out.push(("failed+child", c2));
    out
}

pub fn single_zone_catalog() -> SingleZoneCatalog<HashMapTreeZone, ()> {
    SingleZoneCatalog::new(qd::loaded(std_zone()))
}

/// Key map holding the two template keys: k1. (sha256) and key2.example.
/// (sha1), plus the 255-octet key name of the "tsig-long-key-valid" template.
pub fn tsig_keys() -> TsigKeyMap {
    let mut m: TsigKeyMap = HashMap::new();
    m.insert(qd::qname(&wname(KEY1_NAME)), (alg_of(Alg::Sha256), KEY1_SECRET.to_vec().into_boxed_slice()));
    m.insert(qd::qname(&wname(KEY2_NAME)), (alg_of(Alg::Sha1), KEY2_SECRET.to_vec().into_boxed_slice()));
    let l63 = vec![b'x'; 63];
    let long = crate::wire::wname_from_labels(&[&l63[..], &l63[..], &l63[..], &vec![b'k'; 61][..]]);
    m.insert(qd::qname(&long), (alg_of(Alg::Sha256), KEY1_SECRET.to_vec().into_boxed_slice()));
    m
}

pub fn alg_of(a: Alg) -> Algorithm {
    Algorithm::from_name(&qd::qname(&a.wire_name())).expect("algorithm known to quandary")
}

#[derive(Clone, Copy, Debug, PartialEq, Eq)]
pub struct ServerCfg {
    pub name: &'static str,
    pub edns_size: u16,
    pub tsig: bool,
    /// (rate, window, slip) for all three categories.
    pub rrl: Option<(u32, u32, usize)>,
}

pub const SERVER_CFGS: &[ServerCfg] = &[
    ServerCfg { name: "default", edns_size: 1232, tsig: false, rrl: None },
    ServerCfg { name: "edns512", edns_size: 512, tsig: false, rrl: None },
    ServerCfg { name: "edns65535+tsig", edns_size: 65535, tsig: true, rrl: None },
    ServerCfg { name: "tsig", edns_size: 1232, tsig: true, rrl: None },
    ServerCfg { name: "rrl-slip0", edns_size: 1232, tsig: true, rrl: Some((1, 1, 0)) },
    ServerCfg { name: "rrl-slip1", edns_size: 1232, tsig: false, rrl: Some((1, 1, 1)) },
];

pub fn cfg_by_name(name: &str) -> ServerCfg {
    *SERVER_CFGS.iter().find(|c| c.name == name).expect("unknown server cfg")
}

pub fn make_server<C: quandary::db::Catalog>(catalog: C, cfg: ServerCfg) -> Server<C> {
    let mut s = Server::new(Arc::new(catalog));
    s.set_edns_udp_payload_size(cfg.edns_size).unwrap();
    if cfg.tsig {
        s.set_tsig_keys(Arc::new(tsig_keys()));
    }
    if let Some((rate, window, slip)) = cfg.rrl {
        let mut p = RrlParams::new(rate, rate, rate, window).unwrap();
        p.set_slip(slip);
        s.set_rrl_params(Some(p));
    }
    s
}

pub fn catalog_by_name(name: &str) -> Cat {
    catalogs().into_iter().find(|(n, _)| *n == name).expect("unknown catalog").1
}
