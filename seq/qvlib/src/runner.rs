//! Shared run-time of every check: argument parsing, parallel
//! enumeration, outcome-class counting (vacuity guard), violation
//! recording with replay files, known-findings handling, evidence output.
//!
//! Contract with `/verif/check`:
//!   <bin> <ID> <quick|thorough> [--replay FILE]
//! exit 0 = held on everything explored (KNOWN-FINDING lines allowed),
//! exit 1 = violation (a line `VIOLATION property=<ID> replay=<path>`),
//! anything else = machinery error.

use std::collections::BTreeMap;
use std::panic::{self, AssertUnwindSafe};
use std::path::PathBuf;
use std::sync::atomic::{AtomicBool, AtomicU64, AtomicUsize, Ordering};
use std::sync::Mutex;
use std::time::Instant;

pub use serde_json::{json, Value};

#[derive(Clone, Copy, Debug, PartialEq, Eq)]
pub enum Tier {
    Quick,
    Thorough,
}

pub fn verif_dir() -> PathBuf {
    PathBuf::from(std::env::var("QVERIF_DIR").unwrap_or_else(|_| "/verif".into()))
}

pub fn n_workers() -> usize {
    std::env::var("QVERIF_JOBS")
        .ok()
        .and_then(|s| s.parse().ok())
        .unwrap_or_else(|| std::thread::available_parallelism().map(|n| n.get()).unwrap_or(8))
}

pub struct Ctx {
    pub id: String,
    pub tier: Tier,
    pub seed: u64,
    replay: Option<Value>,
    replay_path: Option<String>,
    start: Instant,
    evals: AtomicU64,
    outcomes: Mutex<BTreeMap<String, (u64, Value)>>,
    violations: Mutex<BTreeMap<String, (u64, Value)>>,
    nviol: AtomicU64,
    extra: Mutex<serde_json::Map<String, Value>>,
    assumptions: Mutex<Vec<String>>,
    capped: AtomicBool,
    known: Vec<KnownFinding>,
}

#[derive(Clone, Debug)]
struct KnownFinding {
    property: String,
    key: String,
    what: String,
}

/// Per-worker accumulator; merged into the `Ctx` when dropped.
pub struct Local<'a> {
    ctx: &'a Ctx,
    evals: u64,
    outcomes: BTreeMap<String, (u64, Option<Value>)>,
}

impl Ctx {
    /// Parses `argv` (`<ID> <tier> [--replay FILE]`). `expected_ids` is the
    /// list of properties this binary serves.
    pub fn from_args(expected_ids: &[&str]) -> Ctx {
        let args: Vec<String> = std::env::args().collect();
        if args.len() < 3 {
            eprintln!("usage: {} <ID> <quick|thorough> [--replay FILE]", args[0]);
            std::process::exit(2);
        }
        let id = args[1].clone();
        if !expected_ids.contains(&id.as_str()) {
            eprintln!("this binary does not serve {id} (serves {expected_ids:?})");
            std::process::exit(2);
        }
        let tier = match args[2].as_str() {
            "quick" => Tier::Quick,
            "thorough" => Tier::Thorough,
            other => {
                eprintln!("bad tier {other}");
                std::process::exit(2);
            }
        };
        let mut replay = None;
        let mut replay_path = None;
        if args.len() >= 5 && args[3] == "--replay" {
            replay_path = Some(args[4].clone());
            let text = std::fs::read_to_string(&args[4]).unwrap_or_else(|e| {
                eprintln!("cannot read replay file {}: {e}", args[4]);
                std::process::exit(2);
            });
            let v: Value = serde_json::from_str(&text).unwrap_or_else(|e| {
                eprintln!("bad replay file: {e}");
                std::process::exit(2);
            });
            replay = Some(v);
        }
        let seed = std::env::var("VERIF_SEED")
            .ok()
            .and_then(|s| s.parse().ok())
            .unwrap_or(0);
        silence_panics();
        if replay.is_none() {
            // Replay files of an earlier run are stale once a new run starts.
            let _ = std::fs::remove_dir_all(verif_dir().join("replays").join(&id));
        }
        Ctx {
            known: load_known(&id),
            id,
            tier,
            seed,
            replay,
            replay_path,
            start: Instant::now(),
            evals: AtomicU64::new(0),
            outcomes: Mutex::new(BTreeMap::new()),
            violations: Mutex::new(BTreeMap::new()),
            nviol: AtomicU64::new(0),
            extra: Mutex::new(serde_json::Map::new()),
            assumptions: Mutex::new(Vec::new()),
            capped: AtomicBool::new(false),
        }
    }

    pub fn quick(&self) -> bool {
        self.tier == Tier::Quick
    }

    /// `q` for the quick tier, `t` for the thorough tier.
    pub fn pick<T>(&self, q: T, t: T) -> T {
        if self.quick() {
            q
        } else {
            t
        }
    }

    /// The case to replay, if `--replay` was given: the `case` member of the
    /// replay file.
    pub fn replay_case(&self) -> Option<&Value> {
        self.replay.as_ref().map(|v| v.get("case").unwrap_or(v))
    }

    pub fn local(&self) -> Local<'_> {
        Local {
            ctx: self,
            evals: 0,
            outcomes: BTreeMap::new(),
        }
    }

    pub fn elapsed_s(&self) -> f64 {
        self.start.elapsed().as_secs_f64()
    }

    /// Records an extra key in the evidence's coverage object.
    pub fn set_extra(&self, key: &str, v: Value) {
        self.extra.lock().unwrap().insert(key.to_string(), v);
    }

    /// Adds to a numeric extra key.
    pub fn add_extra(&self, key: &str, n: u64) {
        let mut e = self.extra.lock().unwrap();
        let cur = e.get(key).and_then(|v| v.as_u64()).unwrap_or(0);
        e.insert(key.to_string(), json!(cur + n));
    }

    pub fn assume(&self, s: &str) {
        let mut a = self.assumptions.lock().unwrap();
        if !a.iter().any(|x| x == s) {
            a.push(s.to_string());
        }
    }

    /// Marks that some cap (time, memory, count) cut the enumeration short;
    /// the evidence will then say `exhaustive: false`.
    pub fn mark_capped(&self, why: &str) {
        self.capped.store(true, Ordering::SeqCst);
        self.set_extra("cap_hit", json!(why));
    }

    pub fn evaluations(&self) -> u64 {
        self.evals.load(Ordering::Relaxed)
    }

    pub fn violation_count(&self) -> u64 {
        self.nviol.load(Ordering::Relaxed)
    }

    /// Records a violation. `key` is a short, stable class string (used to
    /// deduplicate and to match known findings); `case` must contain all
    /// that is needed to re-run the single case with `--replay`.
    pub fn violation(&self, key: &str, case: Value) {
        self.nviol.fetch_add(1, Ordering::Relaxed);
        let mut v = self.violations.lock().unwrap();
        let len = v.len();
        match v.get_mut(key) {
            Some(e) => e.0 += 1,
            None => {
                if len < 200 {
                    v.insert(key.to_string(), (1, case));
                }
            }
        }
    }

    /// Runs `f` over `items` on all cores; every worker has its own `Local`.
    pub fn par_for_each<T: Sync, F>(&self, items: &[T], f: F)
    where
        F: Fn(&mut Local<'_>, &T) + Sync,
    {
        let next = AtomicUsize::new(0);
        let n = n_workers().min(items.len().max(1));
        std::thread::scope(|s| {
            for _ in 0..n {
                s.spawn(|| {
                    let mut local = self.local();
                    loop {
                        let i = next.fetch_add(1, Ordering::Relaxed);
                        if i >= items.len() {
                            break;
                        }
                        f(&mut local, &items[i]);
                    }
                });
            }
        });
    }

    /// Runs `f(local, shard_index)` for shard_index in 0..n_shards on all
    /// cores.
    pub fn par_shards<F>(&self, n_shards: usize, f: F)
    where
        F: Fn(&mut Local<'_>, usize) + Sync,
    {
        let idx: Vec<usize> = (0..n_shards).collect();
        self.par_for_each(&idx, |l, i| f(l, *i));
    }

    /// Writes the evidence file, prints verdict lines and exits.
    ///
    /// `level` is "exploration" or "model_checking". For model_checking the
    /// caller should have set the extras `states`, `transitions` and
    /// `traces_validated_against_impl`.
    pub fn finish(self, level: &str, rule: &str, exhaustive: bool) -> ! {
        let wall = self.start.elapsed().as_secs_f64();
        let outcomes = self.outcomes.lock().unwrap();
        let mut samples: Vec<Value> = Vec::new();
        let mut classes = serde_json::Map::new();
        for (k, (n, s)) in outcomes.iter() {
            classes.insert(k.clone(), json!(n));
            if samples.len() < 12 {
                samples.push(json!({"outcome_class": k, "count": n, "case": s}));
            }
        }
        let distinct = outcomes.len() as u64;
        let mut coverage = serde_json::Map::new();
        coverage.insert("evaluations".into(), json!(self.evals.load(Ordering::Relaxed)));
        coverage.insert("distinct_nontrivial".into(), json!(distinct));
        coverage.insert(
            "rule".into(),
            json!(format!(
                "{rule} | distinct_nontrivial = number of distinct outcome classes observed (see outcome_classes)"
            )),
        );
        coverage.insert("samples".into(), Value::Array(samples));
        coverage.insert(
            "exhaustive".into(),
            json!(exhaustive && !self.capped.load(Ordering::SeqCst)),
        );
        if classes.len() <= 400 {
            coverage.insert("outcome_classes".into(), Value::Object(classes));
        } else {
            coverage.insert("outcome_classes_count".into(), json!(classes.len()));
        }
        for (k, v) in self.extra.lock().unwrap().iter() {
            coverage.insert(k.clone(), v.clone());
        }

        // Violations: split into known findings and new ones.
        let violations = self.violations.lock().unwrap();
        let mut new_viol: Vec<(&String, &(u64, Value))> = Vec::new();
        let mut known_hit: Vec<(String, u64)> = Vec::new();
        for (k, e) in violations.iter() {
            if let Some(kf) = self.known.iter().find(|kf| kf.property == self.id && kf.key == *k) {
                known_hit.push((format!("{} [{}]", kf.what, kf.key), e.0));
            } else {
                new_viol.push((k, e));
            }
        }
        let replay_dir = verif_dir().join("replays").join(&self.id);
        let mut lines = Vec::new();
        if !new_viol.is_empty() && self.replay_path.is_none() {
            let _ = std::fs::create_dir_all(&replay_dir);
        }
        for (i, (k, (n, case))) in new_viol.iter().enumerate() {
            let mut path = replay_dir.join(format!("{i:03}.json"));
            if let Some(rp) = &self.replay_path {
                // Replaying: the case file already exists; do not rewrite it.
                path = PathBuf::from(rp);
            } else {
                let doc = json!({"property": self.id, "key": k, "occurrences": n, "case": case});
                if let Err(e) = std::fs::write(&path, serde_json::to_string_pretty(&doc).unwrap()) {
                    eprintln!("cannot write replay file: {e}");
                }
            }
            if i < 20 {
                lines.push(format!(
                    "VIOLATION property={} replay={} key={} occurrences={}",
                    self.id,
                    path.display(),
                    k,
                    n
                ));
            }
        }
        if !known_hit.is_empty() {
            coverage.insert(
                "known_findings_seen".into(),
                json!(known_hit.iter().map(|(w, n)| json!({"what": w, "occurrences": n})).collect::<Vec<_>>()),
            );
        }
        let doc = json!({
            "property_id": self.id,
            "tier": if self.tier == Tier::Quick { "quick" } else { "thorough" },
            "seed": self.seed,
            "level": level,
            "coverage": Value::Object(coverage),
            "assumptions": *self.assumptions.lock().unwrap(),
            "wall_s": (wall * 1000.0).round() / 1000.0,
            "violations": new_viol.len(),
        });
        // A replay run must not overwrite the evidence of the real run.
        if self.replay.is_none() {
            let evdir = verif_dir().join("evidence");
            let _ = std::fs::create_dir_all(&evdir);
            let path = evdir.join(format!("{}.json", self.id));
            if let Err(e) = std::fs::write(&path, serde_json::to_string_pretty(&doc).unwrap() + "\n") {
                eprintln!("MACHINERY: cannot write evidence {}: {e}", path.display());
                std::process::exit(3);
            }
        }
        for (w, n) in &known_hit {
            println!("KNOWN-FINDING: property={} {} (occurrences={})", self.id, w, n);
        }
        for l in &lines {
            println!("{l}");
        }
        eprintln!(
            "[{}] {} evaluations, {} outcome classes, {} new violation classes, {:.1}s",
            self.id,
            self.evals.load(Ordering::Relaxed),
            distinct,
            new_viol.len(),
            wall
        );
        if self.replay.is_none() && distinct < 2 && new_viol.is_empty() {
            eprintln!("MACHINERY: vacuous run (fewer than 2 outcome classes)");
            std::process::exit(3);
        }
        std::process::exit(if new_viol.is_empty() { 0 } else { 1 });
    }
}

impl<'a> Local<'a> {
    pub fn ctx(&self) -> &'a Ctx {
        self.ctx
    }

    /// Counts one evaluated case.
    #[inline]
    pub fn tick(&mut self) {
        self.evals += 1;
        if self.evals >= 1 << 20 {
            self.flush_evals();
        }
    }

    #[inline]
    pub fn tick_n(&mut self, n: u64) {
        self.evals += n;
    }

    fn flush_evals(&mut self) {
        self.ctx.evals.fetch_add(self.evals, Ordering::Relaxed);
        self.evals = 0;
    }

    /// Counts one case of outcome class `class`; `sample` is evaluated only
    /// for the first case of a class seen by this worker.
    #[inline]
    pub fn outcome<F: FnOnce() -> Value>(&mut self, class: &str, sample: F) {
        if let Some(e) = self.outcomes.get_mut(class) {
            e.0 += 1;
        } else {
            self.outcomes.insert(class.to_string(), (1, Some(sample())));
        }
    }

    /// Like `outcome`, for `n` cases of the class at once.
    pub fn outcome_n<F: FnOnce() -> Value>(&mut self, class: &str, n: u64, sample: F) {
        if let Some(e) = self.outcomes.get_mut(class) {
            e.0 += n;
        } else {
            self.outcomes.insert(class.to_string(), (n, Some(sample())));
        }
    }

    pub fn violation(&mut self, key: &str, case: Value) {
        self.ctx.violation(key, case);
    }
}

impl Drop for Local<'_> {
    fn drop(&mut self) {
        self.flush_evals();
        let mut g = self.ctx.outcomes.lock().unwrap();
        for (k, (n, s)) in std::mem::take(&mut self.outcomes) {
            match g.get_mut(&k) {
                Some(e) => e.0 += n,
                None => {
                    g.insert(k, (n, s.unwrap_or(Value::Null)));
                }
            }
        }
    }
}

fn load_known(id: &str) -> Vec<KnownFinding> {
    let path = verif_dir().join("known_findings.jsonl");
    let mut out = Vec::new();
    if let Ok(text) = std::fs::read_to_string(path) {
        for line in text.lines() {
            let line = line.trim();
            if line.is_empty() || line.starts_with('#') {
                continue;
            }
            if let Ok(v) = serde_json::from_str::<Value>(line) {
                // Only entries with status "known" suppress anything;
                // "fixed" entries are documentation.
                if v.get("status").and_then(|s| s.as_str()) == Some("known")
                    && v.get("property").and_then(|s| s.as_str()) == Some(id)
                {
                    out.push(KnownFinding {
                        property: id.to_string(),
                        key: v.get("key").and_then(|s| s.as_str()).unwrap_or("").to_string(),
                        what: v.get("what").and_then(|s| s.as_str()).unwrap_or("").to_string(),
                    });
                }
            }
        }
    }
    out
}

thread_local! {
    static LAST_PANIC: std::cell::RefCell<Option<String>> = const { std::cell::RefCell::new(None) };
}

/// Installs a panic hook that records the message and location in a
/// thread-local instead of printing (enumerations may trigger millions of
/// caught panics in a broken tree).
pub fn silence_panics() {
    panic::set_hook(Box::new(|info| {
        let loc = info
            .location()
            .map(|l| format!("{}:{}", l.file(), l.line()))
            .unwrap_or_default();
        let msg = if let Some(s) = info.payload().downcast_ref::<&str>() {
            s.to_string()
        } else if let Some(s) = info.payload().downcast_ref::<String>() {
            s.clone()
        } else {
            "<non-string panic>".to_string()
        };
        LAST_PANIC.with(|c| *c.borrow_mut() = Some(format!("{loc}: {msg}")));
    }));
}

/// Runs `f`, converting a panic into `Err("<file:line: message>")`.
pub fn catch<R, F: FnOnce() -> R>(f: F) -> Result<R, String> {
    match panic::catch_unwind(AssertUnwindSafe(f)) {
        Ok(r) => Ok(r),
        Err(_) => Err(LAST_PANIC
            .with(|c| c.borrow_mut().take())
            .unwrap_or_else(|| "<panic>".to_string())),
    }
}

/// A short stable key for a panic message: `file:line` only, with the
/// repository prefix removed.
pub fn panic_key(msg: &str) -> String {
    let loc = msg.split(": ").next().unwrap_or(msg);
    format!("panic@{}", loc.trim_start_matches("/repo/"))
}

pub fn hex(b: &[u8]) -> String {
    let mut s = String::with_capacity(b.len() * 2);
    for x in b {
        s.push_str(&format!("{x:02x}"));
    }
    s
}

pub fn unhex(s: &str) -> Vec<u8> {
    let s: Vec<u8> = s.bytes().filter(|c| c.is_ascii_hexdigit()).collect();
    s.chunks(2)
        .map(|p| u8::from_str_radix(std::str::from_utf8(p).unwrap(), 16).unwrap())
        .collect()
}
