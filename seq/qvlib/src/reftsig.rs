//! Independent SHA-1 / SHA-256 / HMAC (FIPS 180-4, RFC 2104) and the RFC 8945
//! §4.3 digest composition. Written from the specifications; checked against
//! published test vectors by `self_test()` (call it once at start-up).

pub fn sha1(data: &[u8]) -> [u8; 20] {
    let mut h: [u32; 5] = [0x67452301, 0xEFCDAB89, 0x98BADCFE, 0x10325476, 0xC3D2E1F0];
    let mut msg = data.to_vec();
    let bitlen = (data.len() as u64) * 8;
    msg.push(0x80);
    while msg.len() % 64 != 56 {
        msg.push(0);
    }
    msg.extend_from_slice(&bitlen.to_be_bytes());
    for block in msg.chunks(64) {
        let mut w = [0u32; 80];
        for i in 0..16 {
            w[i] = u32::from_be_bytes([block[4 * i], block[4 * i + 1], block[4 * i + 2], block[4 * i + 3]]);
        }
        for i in 16..80 {
            w[i] = (w[i - 3] ^ w[i - 8] ^ w[i - 14] ^ w[i - 16]).rotate_left(1);
        }
        let (mut a, mut b, mut c, mut d, mut e) = (h[0], h[1], h[2], h[3], h[4]);
        for (i, wi) in w.iter().enumerate() {
            let (f, k) = match i {
                0..=19 => ((b & c) | ((!b) & d), 0x5A827999u32),
                20..=39 => (b ^ c ^ d, 0x6ED9EBA1),
                40..=59 => ((b & c) | (b & d) | (c & d), 0x8F1BBCDC),
                _ => (b ^ c ^ d, 0xCA62C1D6),
            };
            let t = a.rotate_left(5).wrapping_add(f).wrapping_add(e).wrapping_add(k).wrapping_add(*wi);
            e = d;
            d = c;
            c = b.rotate_left(30);
            b = a;
            a = t;
        }
        h[0] = h[0].wrapping_add(a);
        h[1] = h[1].wrapping_add(b);
        h[2] = h[2].wrapping_add(c);
        h[3] = h[3].wrapping_add(d);
        h[4] = h[4].wrapping_add(e);
    }
    let mut out = [0u8; 20];
    for i in 0..5 {
        out[4 * i..4 * i + 4].copy_from_slice(&h[i].to_be_bytes());
    }
    out
}

const K256: [u32; 64] = [
    0x428a2f98, 0x71374491, 0xb5c0fbcf, 0xe9b5dba5, 0x3956c25b, 0x59f111f1, 0x923f82a4, 0xab1c5ed5, 0xd807aa98, 0x12835b01, 0x243185be, 0x550c7dc3, 0x72be5d74, 0x80deb1fe,
    0x9bdc06a7, 0xc19bf174, 0xe49b69c1, 0xefbe4786, 0x0fc19dc6, 0x240ca1cc, 0x2de92c6f, 0x4a7484aa, 0x5cb0a9dc, 0x76f988da, 0x983e5152, 0xa831c66d, 0xb00327c8, 0xbf597fc7,
    0xc6e00bf3, 0xd5a79147, 0x06ca6351, 0x14292967, 0x27b70a85, 0x2e1b2138, 0x4d2c6dfc, 0x53380d13, 0x650a7354, 0x766a0abb, 0x81c2c92e, 0x92722c85, 0xa2bfe8a1, 0xa81a664b,
    0xc24b8b70, 0xc76c51a3, 0xd192e819, 0xd6990624, 0xf40e3585, 0x106aa070, 0x19a4c116, 0x1e376c08, 0x2748774c, 0x34b0bcb5, 0x391c0cb3, 0x4ed8aa4a, 0x5b9cca4f, 0x682e6ff3,
    0x748f82ee, 0x78a5636f, 0x84c87814, 0x8cc70208, 0x90befffa, 0xa4506ceb, 0xbef9a3f7, 0xc67178f2,
];

pub fn sha256(data: &[u8]) -> [u8; 32] {
    let mut h: [u32; 8] = [0x6a09e667, 0xbb67ae85, 0x3c6ef372, 0xa54ff53a, 0x510e527f, 0x9b05688c, 0x1f83d9ab, 0x5be0cd19];
    let mut msg = data.to_vec();
    let bitlen = (data.len() as u64) * 8;
    msg.push(0x80);
    while msg.len() % 64 != 56 {
        msg.push(0);
    }
    msg.extend_from_slice(&bitlen.to_be_bytes());
    for block in msg.chunks(64) {
        let mut w = [0u32; 64];
        for i in 0..16 {
            w[i] = u32::from_be_bytes([block[4 * i], block[4 * i + 1], block[4 * i + 2], block[4 * i + 3]]);
        }
        for i in 16..64 {
            let s0 = w[i - 15].rotate_right(7) ^ w[i - 15].rotate_right(18) ^ (w[i - 15] >> 3);
            let s1 = w[i - 2].rotate_right(17) ^ w[i - 2].rotate_right(19) ^ (w[i - 2] >> 10);
            w[i] = w[i - 16].wrapping_add(s0).wrapping_add(w[i - 7]).wrapping_add(s1);
        }
        let mut v = h;
        for i in 0..64 {
            let s1 = v[4].rotate_right(6) ^ v[4].rotate_right(11) ^ v[4].rotate_right(25);
            let ch = (v[4] & v[5]) ^ ((!v[4]) & v[6]);
            let t1 = v[7].wrapping_add(s1).wrapping_add(ch).wrapping_add(K256[i]).wrapping_add(w[i]);
            let s0 = v[0].rotate_right(2) ^ v[0].rotate_right(13) ^ v[0].rotate_right(22);
            let maj = (v[0] & v[1]) ^ (v[0] & v[2]) ^ (v[1] & v[2]);
            let t2 = s0.wrapping_add(maj);
            v[7] = v[6];
            v[6] = v[5];
            v[5] = v[4];
            v[4] = v[3].wrapping_add(t1);
            v[3] = v[2];
            v[2] = v[1];
            v[1] = v[0];
            v[0] = t1.wrapping_add(t2);
        }
        for i in 0..8 {
            h[i] = h[i].wrapping_add(v[i]);
        }
    }
    let mut out = [0u8; 32];
    for i in 0..8 {
        out[4 * i..4 * i + 4].copy_from_slice(&h[i].to_be_bytes());
    }
    out
}

#[derive(Clone, Copy, Debug, PartialEq, Eq, Hash, PartialOrd, Ord)]
pub enum Alg {
    Sha1,
    Sha256,
}

impl Alg {
    /// The algorithm's domain name in wire form.
    pub fn wire_name(self) -> Vec<u8> {
        match self {
            Alg::Sha1 => crate::wire::wname("hmac-sha1."),
            Alg::Sha256 => crate::wire::wname("hmac-sha256."),
        }
    }
    pub fn mac_len(self) -> usize {
        match self {
            Alg::Sha1 => 20,
            Alg::Sha256 => 32,
        }
    }
    fn hash(self, d: &[u8]) -> Vec<u8> {
        match self {
            Alg::Sha1 => sha1(d).to_vec(),
            Alg::Sha256 => sha256(d).to_vec(),
        }
    }
    pub fn text(self) -> &'static str {
        match self {
            Alg::Sha1 => "hmac-sha1",
            Alg::Sha256 => "hmac-sha256",
        }
    }
}

/// RFC 2104 HMAC (block size 64 for both hashes).
pub fn hmac(alg: Alg, key: &[u8], data: &[u8]) -> Vec<u8> {
    let mut k = if key.len() > 64 { alg.hash(key) } else { key.to_vec() };
    k.resize(64, 0);
    let mut inner: Vec<u8> = k.iter().map(|b| b ^ 0x36).collect();
    inner.extend_from_slice(data);
    let ih = alg.hash(&inner);
    let mut outer: Vec<u8> = k.iter().map(|b| b ^ 0x5c).collect();
    outer.extend_from_slice(&ih);
    alg.hash(&outer)
}

/// The TSIG variables of RFC 8945 §4.3.3 (key name and algorithm name are
/// digested in canonical, i.e. lower-case uncompressed, wire form).
#[derive(Clone, Debug)]
pub struct TsigVars {
    pub key_name: Vec<u8>,
    pub alg_name: Vec<u8>,
    pub time_signed: u64, // 48 bits
    pub fudge: u16,
    pub error: u16,
    pub other: Vec<u8>,
}

fn vars_octets(v: &TsigVars) -> Vec<u8> {
    let mut d = Vec::new();
    d.extend_from_slice(&crate::wire::lower(&v.key_name));
    d.extend_from_slice(&255u16.to_be_bytes()); // CLASS ANY
    d.extend_from_slice(&0u32.to_be_bytes()); // TTL 0
    d.extend_from_slice(&crate::wire::lower(&v.alg_name));
    d.extend_from_slice(&v.time_signed.to_be_bytes()[2..8]);
    d.extend_from_slice(&v.fudge.to_be_bytes());
    d.extend_from_slice(&v.error.to_be_bytes());
    d.extend_from_slice(&(v.other.len() as u16).to_be_bytes());
    d.extend_from_slice(&v.other);
    d
}

/// `message_without_tsig`: the message up to (not including) the TSIG RR, as
/// transmitted. The digest uses it with the ID replaced by `original_id` and
/// ARCOUNT decremented by one (RFC 8945 §4.3.2) — the caller passes the
/// message *as on the wire with the TSIG RR counted*, and this function does
/// both adjustments.
pub fn digest_input_message(message_without_tsig: &[u8], original_id: u16) -> Vec<u8> {
    let mut m = message_without_tsig.to_vec();
    m[0..2].copy_from_slice(&original_id.to_be_bytes());
    let ar = u16::from_be_bytes([m[10], m[11]]).wrapping_sub(1);
    m[10..12].copy_from_slice(&ar.to_be_bytes());
    m
}

/// MAC of a request (no prior MAC).
pub fn mac_request(alg: Alg, key: &[u8], message_without_tsig: &[u8], original_id: u16, v: &TsigVars) -> Vec<u8> {
    let mut d = digest_input_message(message_without_tsig, original_id);
    d.extend_from_slice(&vars_octets(v));
    hmac(alg, key, &d)
}

/// MAC of a response: the request MAC (length-prefixed) is digested first
/// (RFC 8945 §4.3.1).
pub fn mac_response(alg: Alg, key: &[u8], request_mac: &[u8], message_without_tsig: &[u8], original_id: u16, v: &TsigVars) -> Vec<u8> {
    let mut d = Vec::new();
    d.extend_from_slice(&(request_mac.len() as u16).to_be_bytes());
    d.extend_from_slice(request_mac);
    d.extend_from_slice(&digest_input_message(message_without_tsig, original_id));
    d.extend_from_slice(&vars_octets(v));
    hmac(alg, key, &d)
}

/// MAC of a subsequent message of a multi-message response: prior MAC
/// (length-prefixed), the message, and only the timers (RFC 8945 §5.3.1).
pub fn mac_subsequent(alg: Alg, key: &[u8], prior_mac: &[u8], message_without_tsig: &[u8], original_id: u16, time_signed: u64, fudge: u16) -> Vec<u8> {
    let mut d = Vec::new();
    d.extend_from_slice(&(prior_mac.len() as u16).to_be_bytes());
    d.extend_from_slice(prior_mac);
    d.extend_from_slice(&digest_input_message(message_without_tsig, original_id));
    d.extend_from_slice(&time_signed.to_be_bytes()[2..8]);
    d.extend_from_slice(&fudge.to_be_bytes());
    hmac(alg, key, &d)
}

/// TSIG RDATA octets.
pub fn tsig_rdata(alg_name: &[u8], time_signed: u64, fudge: u16, mac: &[u8], original_id: u16, error: u16, other: &[u8]) -> Vec<u8> {
    let mut r = Vec::new();
    r.extend_from_slice(alg_name);
    r.extend_from_slice(&time_signed.to_be_bytes()[2..8]);
    r.extend_from_slice(&fudge.to_be_bytes());
    r.extend_from_slice(&(mac.len() as u16).to_be_bytes());
    r.extend_from_slice(mac);
    r.extend_from_slice(&original_id.to_be_bytes());
    r.extend_from_slice(&error.to_be_bytes());
    r.extend_from_slice(&(other.len() as u16).to_be_bytes());
    r.extend_from_slice(other);
    r
}

/// Parsed TSIG RDATA.
#[derive(Clone, Debug, PartialEq, Eq)]
pub struct TsigRdata {
    pub alg_name: Vec<u8>,
    pub time_signed: u64,
    pub fudge: u16,
    pub mac: Vec<u8>,
    pub original_id: u16,
    pub error: u16,
    pub other: Vec<u8>,
}

pub fn parse_tsig_rdata(rd: &[u8]) -> Option<TsigRdata> {
    let n = crate::wire::valid_uncompressed_len(rd)?;
    let r = &rd[n..];
    if r.len() < 10 {
        return None;
    }
    let mut t = [0u8; 8];
    t[2..8].copy_from_slice(&r[0..6]);
    let ms = u16::from_be_bytes([r[8], r[9]]) as usize;
    if r.len() < 10 + ms + 6 {
        return None;
    }
    let mac = r[10..10 + ms].to_vec();
    let p = 10 + ms;
    let ol = u16::from_be_bytes([r[p + 4], r[p + 5]]) as usize;
    if r.len() != p + 6 + ol {
        return None;
    }
    Some(TsigRdata {
        alg_name: rd[..n].to_vec(),
        time_signed: u64::from_be_bytes(t),
        fudge: u16::from_be_bytes([r[6], r[7]]),
        mac,
        original_id: u16::from_be_bytes([r[p], r[p + 1]]),
        error: u16::from_be_bytes([r[p + 2], r[p + 3]]),
        other: r[p + 6..].to_vec(),
    })
}

/// Appends a TSIG RR signing `msg` (a complete message without TSIG, whose
/// ARCOUNT does not yet count the TSIG) as a *request*, and returns
/// (signed message, full MAC). `mac_truncate_to`: transmit only that many MAC
/// octets. The message ID is used as the original ID.
pub fn sign_request(msg: &[u8], key_name: &[u8], alg: Alg, alg_name_on_wire: &[u8], key: &[u8], time_signed: u64, fudge: u16, mac_truncate_to: Option<usize>) -> (Vec<u8>, Vec<u8>) {
    let id = u16::from_be_bytes([msg[0], msg[1]]);
    let vars = TsigVars { key_name: key_name.to_vec(), alg_name: alg_name_on_wire.to_vec(), time_signed, fudge, error: 0, other: vec![] };
    // digest_input_message decrements ARCOUNT, so count the TSIG first.
    let mut counted = msg.to_vec();
    let ar = u16::from_be_bytes([counted[10], counted[11]]).wrapping_add(1);
    counted[10..12].copy_from_slice(&ar.to_be_bytes());
    let mac = mac_request(alg, key, &counted, id, &vars);
    let sent_mac = match mac_truncate_to {
        Some(n) => &mac[..n.min(mac.len())],
        None => &mac[..],
    };
    let rd = tsig_rdata(alg_name_on_wire, time_signed, fudge, sent_mac, id, 0, &[]);
    let mut out = counted;
    out.extend_from_slice(key_name);
    out.extend_from_slice(&250u16.to_be_bytes());
    out.extend_from_slice(&255u16.to_be_bytes());
    out.extend_from_slice(&0u32.to_be_bytes());
    out.extend_from_slice(&(rd.len() as u16).to_be_bytes());
    out.extend_from_slice(&rd);
    (out, mac)
}

/// Known-answer tests: FIPS 180 "abc" vectors, RFC 2202 / RFC 4231 HMAC case 1
/// and 2. Panics on mismatch.
pub fn self_test() {
    use crate::runner::hex;
    assert_eq!(hex(&sha1(b"abc")), "a9993e364706816aba3e25717850c26c9cd0d89d");
    assert_eq!(hex(&sha1(b"")), "da39a3ee5e6b4b0d3255bfef95601890afd80709");
    assert_eq!(hex(&sha1(b"abcdbcdecdefdefgefghfghighijhijkijkljklmklmnlmnomnopnopq")), "84983e441c3bd26ebaae4aa1f95129e5e54670f1");
    assert_eq!(hex(&sha256(b"abc")), "ba7816bf8f01cfea414140de5dae2223b00361a396177a9cb410ff61f20015ad");
    assert_eq!(hex(&sha256(b"")), "e3b0c44298fc1c149afbf4c8996fb92427ae41e4649b934ca495991b7852b855");
    assert_eq!(hex(&sha256(b"abcdbcdecdefdefgefghfghighijhijkijkljklmklmnlmnomnopnopq")), "248d6a61d20638b8e5c026930c3e6039a33ce45964ff2167f6ecedd419db06c1");
    // RFC 2202 test case 1 and 2 (HMAC-SHA1)
    assert_eq!(hex(&hmac(Alg::Sha1, &[0x0b; 20], b"Hi There")), "b617318655057264e28bc0b6fb378c8ef146be00");
    assert_eq!(hex(&hmac(Alg::Sha1, b"Jefe", b"what do ya want for nothing?")), "effcdf6ae5eb2fa2d27416d5f184df9c259a7c79");
    // RFC 2202 test case 6 (key longer than the block size)
    assert_eq!(hex(&hmac(Alg::Sha1, &[0xaa; 80], b"Test Using Larger Than Block-Size Key - Hash Key First")), "aa4ae5e15272d00e95705637ce8a3b55ed402112");
    // RFC 4231 test case 1, 2 and 6 (HMAC-SHA256)
    assert_eq!(hex(&hmac(Alg::Sha256, &[0x0b; 20], b"Hi There")), "b0344c61d8db38535ca8afceaf0bf12b881dc200c9833da726e9376c2e32cff7");
    assert_eq!(hex(&hmac(Alg::Sha256, b"Jefe", b"what do ya want for nothing?")), "5bdcc146bf60754e6a042426089575c75a003f089d2739839dec58b964ec3843");
    assert_eq!(hex(&hmac(Alg::Sha256, &[0xaa; 131], b"Test Using Larger Than Block-Size Key - Hash Key First")), "60e431591ee0b67f0d8a26aacbf5b77f8e0bc6213728c5140546040f0ee37f54");
}
