//! Small exhaustive-enumeration combinators. Everything here is
//! deterministic and complete: no sampling.

/// Calls `f` with every sequence of length exactly `len` over `0..base`
/// (odometer order). `f` returns `false` to stop early.
pub fn for_each_seq_exact<F: FnMut(&[usize]) -> bool>(base: usize, len: usize, mut f: F) {
    if base == 0 && len > 0 {
        return;
    }
    let mut idx = vec![0usize; len];
    loop {
        if !f(&idx) {
            return;
        }
        let mut k = len;
        loop {
            if k == 0 {
                return;
            }
            k -= 1;
            idx[k] += 1;
            if idx[k] < base {
                break;
            }
            idx[k] = 0;
        }
    }
}

/// Every sequence of length 0..=max_len over `0..base`, shortest first.
pub fn for_each_seq_upto<F: FnMut(&[usize]) -> bool>(base: usize, max_len: usize, mut f: F) {
    for len in 0..=max_len {
        let mut go = true;
        for_each_seq_exact(base, len, |s| {
            go = f(s);
            go
        });
        if !go {
            return;
        }
    }
}

/// Number of sequences of length 0..=max_len over an alphabet of `base`.
pub fn count_seq_upto(base: usize, max_len: usize) -> u64 {
    let mut total = 0u64;
    let mut p = 1u64;
    for _ in 0..=max_len {
        total += p;
        p = p.saturating_mul(base as u64);
    }
    total
}

/// Every subset of `0..n` with at most `k` members, smallest first, members
/// ascending.
pub fn subsets_upto(n: usize, k: usize) -> Vec<Vec<usize>> {
    let mut out = vec![vec![]];
    let mut frontier: Vec<Vec<usize>> = vec![vec![]];
    for _ in 0..k {
        let mut next = Vec::new();
        for s in &frontier {
            let start = s.last().map(|x| x + 1).unwrap_or(0);
            for i in start..n {
                let mut t = s.clone();
                t.push(i);
                next.push(t);
            }
        }
        out.extend(next.iter().cloned());
        frontier = next;
    }
    out
}

/// Mixed-radix product: calls `f` with every index vector `v` where
/// `v[i] < radices[i]`.
pub fn for_each_product<F: FnMut(&[usize])>(radices: &[usize], mut f: F) {
    if radices.iter().any(|r| *r == 0) {
        return;
    }
    let mut idx = vec![0usize; radices.len()];
    loop {
        f(&idx);
        let mut k = radices.len();
        loop {
            if k == 0 {
                return;
            }
            k -= 1;
            idx[k] += 1;
            if idx[k] < radices[k] {
                break;
            }
            idx[k] = 0;
        }
    }
}

/// Decodes `n` (0-based rank) into a sequence of length `len` over `0..base`
/// (most significant first) — lets a sharded enumeration jump to its slice.
pub fn unrank_seq(mut n: u64, base: usize, len: usize) -> Vec<usize> {
    let mut v = vec![0usize; len];
    for k in (0..len).rev() {
        v[k] = (n % base as u64) as usize;
        n /= base as u64;
    }
    v
}

/// All byte strings of length exactly `len` over `alphabet`.
pub fn for_each_bytes_exact<F: FnMut(&[u8])>(alphabet: &[u8], len: usize, mut f: F) {
    let mut buf = vec![0u8; len];
    for_each_seq_exact(alphabet.len(), len, |s| {
        for (i, k) in s.iter().enumerate() {
            buf[i] = alphabet[*k];
        }
        f(&buf);
        true
    });
}
