//! Shared library of the sequential engine (E-SEQ). See /verif/seq/API.md.
pub mod enumerate;
pub mod fixtures;
pub mod qd;
pub mod reftsig;
pub mod runner;
pub mod templates;
pub mod wire;

pub use runner::{catch, hex, json, panic_key, unhex, Ctx, Local, Tier, Value};
