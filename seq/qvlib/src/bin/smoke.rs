//! Smoke test of the shared library: every template against every fixture
//! catalog, configuration and transport; responses strictly decoded.
use qvlib::fixtures::*;
use qvlib::qd::{self, Tp};
use qvlib::wire::{decode_message, PtrRule};
use qvlib::{reftsig, templates};

fn main() {
    reftsig::self_test();
    qvlib::runner::silence_panics();
    quandary::server::verif_hooks::set_tsig_unix_time(Some(templates::TSIG_TIME));
    let temps = templates::requests();
    println!("{} templates", temps.len());
    for t in &temps {
        if let Err(e) = decode_message(&t.bytes, PtrRule::BeforePointer, false) {
            println!("TEMPLATE {} does not decode: {e}", t.name);
        }
    }
    let verbose = std::env::args().nth(1).is_some();
    let mut n = 0;
    for (cname, _) in catalogs() {
        for cfg in SERVER_CFGS {
            let server = make_server(catalog_by_name(cname), *cfg);
            for t in &temps {
                for tp in [Tp::Udp, Tp::Tcp] {
                    n += 1;
                    match qd::handle(&server, &t.bytes, qd::localhost(), tp) {
                        Err(p) => println!("PANIC {cname} {} {} {:?}: {p}", cfg.name, t.name, tp),
                        Ok(None) => {
                            if verbose && cname == "std" && cfg.name == "tsig" { println!("{:24} {:?} -> none", t.name, tp); }
                        }
                        Ok(Some(r)) => match decode_message(&r, PtrRule::BeforePointer, true) {
                            Err(e) => {
                                if cname != "malformed" { println!("UNDECODABLE {cname} {} {} {:?}: {e}", cfg.name, t.name, tp) }
                            }
                            Ok(m) => {
                                if verbose && cname == "std" && cfg.name == "tsig" {
                                    println!("{:24} {:?} -> len {:5} rcode {:2} ext {:4} aa {} tc {} an {} ns {} ar {} opt {} tsig {}", t.name, tp, r.len(), m.header.rcode, m.ext_rcode(), m.header.aa as u8, m.header.tc as u8, m.answers.len(), m.authority.len(), m.additional.len(), m.opt().is_some(), m.tsig().is_some());
                                }
                            }
                        },
                    }
                }
            }
        }
    }
    println!("{n} calls");
}
