fn main() {
    let name = std::env::args().nth(1).unwrap();
    let t = qvlib::templates::by_name(&name).unwrap();
    println!("{}", qvlib::hex(&t.bytes));
    for f in &t.fields { println!("{:?}", f); }
}
