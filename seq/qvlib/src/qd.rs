//! Thin adapters between the harness's plain data (wire names as Vec<u8>,
//! u16 codes) and quandary's types. No logic under test lives here.

use std::net::IpAddr;
use std::sync::Arc;

use quandary::class::Class;
use quandary::db::catalog::Entry;
use quandary::db::zone::GluePolicy;
use quandary::db::{HashMapTreeCatalog, HashMapTreeZone};
use quandary::name::Name;
use quandary::rr::{Rdata, Ttl, Type};
use quandary::server::{ReceivedInfo, Response, Server, Transport};

use crate::runner::catch;

pub type Cat = HashMapTreeCatalog<HashMapTreeZone, ()>;

/// Wire name -> quandary Name (panics if invalid: harness data must be valid).
pub fn qname(w: &[u8]) -> Box<Name> {
    Name::try_from_uncompressed_all(w).expect("harness built an invalid name")
}

pub fn wn(n: &Name) -> Vec<u8> {
    n.wire_repr().to_vec()
}

pub fn rdata(octets: &[u8]) -> &Rdata {
    <&Rdata>::try_from(octets).expect("RDATA too long")
}

#[derive(Clone, Debug, PartialEq, Eq, PartialOrd, Ord, Hash)]
pub struct Rec {
    pub owner: Vec<u8>,
    pub typ: u16,
    pub class: u16,
    pub ttl: u32,
    pub rdata: Vec<u8>,
}

impl Rec {
    pub fn new(owner: &[u8], typ: u16, class: u16, ttl: u32, rdata: &[u8]) -> Rec {
        Rec { owner: owner.to_vec(), typ, class, ttl, rdata: rdata.to_vec() }
    }
    pub fn to_json(&self) -> serde_json::Value {
        serde_json::json!({
            "owner": crate::wire::name_text(&self.owner),
            "type": self.typ, "class": self.class, "ttl": self.ttl,
            "rdata": crate::runner::hex(&self.rdata),
        })
    }
}

/// Builds a zone by adding `recs` in order. Returns Err with the index of the
/// first record the zone rejected.
pub fn build_zone(apex: &[u8], class: u16, glue: GluePolicy, recs: &[Rec]) -> Result<HashMapTreeZone, (usize, String)> {
    let mut z = HashMapTreeZone::new(qname(apex), Class::from(class), glue);
    for (i, r) in recs.iter().enumerate() {
        z.add(&qname(&r.owner), Type::from(r.typ), Class::from(r.class), Ttl::from(r.ttl), rdata(&r.rdata))
            .map_err(|e| (i, format!("{e:?}")))?;
    }
    Ok(z)
}

pub fn loaded(z: HashMapTreeZone) -> Entry<HashMapTreeZone, ()> {
    Entry::Loaded(Arc::new(z), ())
}

pub fn catalog_of(zones: Vec<HashMapTreeZone>) -> Cat {
    let mut c = Cat::new();
    for z in zones {
        c.insert(loaded(z));
    }
    c
}

#[derive(Clone, Copy, Debug, PartialEq, Eq, Hash, PartialOrd, Ord)]
pub enum Tp {
    Udp,
    Tcp,
}

impl Tp {
    pub fn name(self) -> &'static str {
        match self {
            Tp::Udp => "udp",
            Tp::Tcp => "tcp",
        }
    }
    pub fn from_name(s: &str) -> Tp {
        if s == "tcp" {
            Tp::Tcp
        } else {
            Tp::Udp
        }
    }
}

/// What the response buffer holds before every call. The I/O providers reuse
/// one buffer for all requests of a thread or connection, so its previous
/// contents are arbitrary. All-ones is the complement of the zero-filled
/// buffers of unit tests: every header flag that is not written explicitly
/// shows up as set, and any read of unwritten buffer contents as a name meets
/// a forward compression pointer (zeroes would read as a harmless root label).
pub const RESP_POISON: u8 = 0xff;

thread_local! {
    static RESP_BUF: std::cell::RefCell<Vec<u8>> = std::cell::RefCell::new(vec![RESP_POISON; 65535]);
    static RESP_DIRTY: std::cell::Cell<bool> = const { std::cell::Cell::new(false) };
}

/// Calls `Server::handle_message` with a 65 535-octet response buffer (always
/// large enough for either transport) under `catch_unwind`. The buffer is
/// pre-filled with `RESP_POISON` (restored after every call over the part a
/// response of that size can have touched, so that a case replays alike).
/// Ok(None) = no response; Ok(Some(octets)) = response; Err(msg) = panic.
pub fn handle<C: quandary::db::Catalog>(server: &Server<C>, req: &[u8], src: IpAddr, tp: Tp) -> Result<Option<Vec<u8>>, String> {
    RESP_BUF.with(|b| {
        let mut b = b.borrow_mut();
        let info = ReceivedInfo::new(src, if tp == Tp::Udp { Transport::Udp } else { Transport::Tcp });
        let buf: &mut [u8] = &mut b[..];
        let r = handle_in(server, req, info, buf);
        let touched = match &r {
            Ok(Some(v)) => v.len(),
            _ => 0,
        }
        .max(req.len())
        .max(512)
            + 1024;
        let end = touched.min(buf.len());
        if !RESP_DIRTY.with(|d| d.get()) {
            buf[..end].fill(RESP_POISON);
        }
        r
    })
}

/// Starts a stretch in which this thread's response buffer is NOT restored
/// to the poison between calls of `handle`: every call starts on whatever the
/// earlier calls of the stretch left behind (what a provider's reused buffer
/// looks like). Stale but plausible content - a compression scan that strays
/// beyond what it has written finds labels that match. The buffer is poisoned
/// completely at the start, so the contents before call k are a function of
/// the calls 0..k of the stretch alone.
pub fn dirty_begin() {
    RESP_BUF.with(|b| b.borrow_mut().fill(RESP_POISON));
    RESP_DIRTY.with(|d| d.set(true));
}

/// Ends the stretch started by `dirty_begin` and restores the poison.
pub fn dirty_end() {
    RESP_DIRTY.with(|d| d.set(false));
    RESP_BUF.with(|b| b.borrow_mut().fill(RESP_POISON));
}

fn handle_in<C: quandary::db::Catalog>(server: &Server<C>, req: &[u8], info: ReceivedInfo, buf: &mut [u8]) -> Result<Option<Vec<u8>>, String> {
    {
        match catch(|| server.handle_message(req, info, buf)) {
            Ok(Response::Single(n)) => {
                if n > buf.len() {
                    return Err(format!("handle_message returned length {n} beyond the buffer"));
                }
                Ok(Some(buf[..n].to_vec()))
            }
            Ok(Response::None) => Ok(None),
            Err(p) => Err(p),
        }
    }
}

pub fn localhost() -> IpAddr {
    IpAddr::from([127, 0, 0, 1])
}
