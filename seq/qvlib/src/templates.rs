//! A menu of well-formed request messages with the offsets of their
//! structurally significant fields, used as the base of the truncation and
//! single-mutation families (C01, C02, C08, C15).

use crate::reftsig::{self, Alg};
use crate::wire::{self, c, t, wname};

#[derive(Clone, Copy, Debug, PartialEq, Eq)]
pub enum FieldKind {
    /// One of the four 16-bit header counts (offset 4, 6, 8, 10).
    Count,
    /// A label length octet.
    LabelLen,
    /// First octet of a two-octet compression pointer.
    Pointer,
    /// 16-bit RDLENGTH.
    Rdlength,
    /// 16-bit TYPE of a record.
    RrType,
    /// 16-bit CLASS of a record.
    RrClass,
    /// 32-bit TTL of a record.
    RrTtl,
    /// 16-bit MAC size inside TSIG RDATA.
    MacSize,
    /// 16-bit other-len inside TSIG RDATA.
    OtherLen,
    /// 16-bit option length inside OPT RDATA.
    OptLen,
    /// Start of a record (offset of its owner name); len = whole record.
    Record,
    /// Start of the question; len = whole question.
    Question,
}

#[derive(Clone, Debug)]
pub struct Field {
    pub kind: FieldKind,
    pub offset: usize,
    pub len: usize,
    /// Section of the enclosing record: 0 question, 1 answer, 2 authority,
    /// 3 additional, 9 header.
    pub section: u8,
}

#[derive(Clone, Debug)]
pub struct Template {
    pub name: String,
    pub bytes: Vec<u8>,
    pub fields: Vec<Field>,
    /// TSIG key material the server must know for this request to verify:
    /// (key name, algorithm, secret), and the time it was signed at.
    pub tsig: Option<TsigInfo>,
}

#[derive(Clone, Debug)]
pub struct TsigInfo {
    pub key_name: Vec<u8>,
    pub alg: Alg,
    pub secret: Vec<u8>,
    pub time_signed: u64,
    pub request_mac: Vec<u8>,
    /// Whether the request is expected to verify (right key, right MAC).
    pub valid: bool,
}

/// The fixed time at which every TSIG template is signed; checks that want
/// the signature to be in the window set the server's virtual TSIG clock to
/// this value.
pub const TSIG_TIME: u64 = 1_700_000_000;
pub const KEY1_NAME: &str = "k1.";
pub const KEY1_SECRET: &[u8] = b"0123456789abcdef0123456789abcdef";
pub const KEY2_NAME: &str = "key2.example.";
pub const KEY2_SECRET: &[u8] = b"fedcba9876543210";

struct B {
    buf: Vec<u8>,
    fields: Vec<Field>,
    counts: [u16; 4],
}

impl B {
    fn new(id: u16, flags: u16) -> B {
        let mut buf = Vec::new();
        buf.extend_from_slice(&id.to_be_bytes());
        buf.extend_from_slice(&flags.to_be_bytes());
        buf.extend_from_slice(&[0; 8]);
        let fields = (0..4).map(|k| Field { kind: FieldKind::Count, offset: 4 + 2 * k, len: 2, section: 9 }).collect();
        B { buf, fields, counts: [0; 4] }
    }
    /// Writes a name given as a list of parts: literal labels and an optional
    /// final pointer.
    fn name(&mut self, labels: &[&[u8]], pointer: Option<usize>, section: u8) {
        for l in labels {
            self.fields.push(Field { kind: FieldKind::LabelLen, offset: self.buf.len(), len: 1, section });
            self.buf.push(l.len() as u8);
            self.buf.extend_from_slice(l);
        }
        match pointer {
            Some(p) => {
                self.fields.push(Field { kind: FieldKind::Pointer, offset: self.buf.len(), len: 2, section });
                self.buf.extend_from_slice(&wire::ptr(p));
            }
            None => {
                self.fields.push(Field { kind: FieldKind::LabelLen, offset: self.buf.len(), len: 1, section });
                self.buf.push(0);
            }
        }
    }
    fn wname(&mut self, n: &[u8], section: u8) {
        let ls = wire::labels(n);
        self.name(&ls, None, section);
    }
    fn question(&mut self, labels: &[&[u8]], pointer: Option<usize>, qtype: u16, qclass: u16) -> usize {
        let start = self.buf.len();
        self.name(labels, pointer, 0);
        self.buf.extend_from_slice(&qtype.to_be_bytes());
        self.buf.extend_from_slice(&qclass.to_be_bytes());
        self.fields.push(Field { kind: FieldKind::Question, offset: start, len: self.buf.len() - start, section: 0 });
        self.counts[0] += 1;
        start
    }
    /// `rdata_parts`: pieces of RDATA; names are written through `name` so
    /// their label lengths are recorded.
    fn rr(&mut self, section: u8, labels: &[&[u8]], pointer: Option<usize>, typ: u16, class: u16, ttl: u32, rdata: &dyn Fn(&mut B)) -> usize {
        let start = self.buf.len();
        self.name(labels, pointer, section);
        self.fields.push(Field { kind: FieldKind::RrType, offset: self.buf.len(), len: 2, section });
        self.buf.extend_from_slice(&typ.to_be_bytes());
        self.fields.push(Field { kind: FieldKind::RrClass, offset: self.buf.len(), len: 2, section });
        self.buf.extend_from_slice(&class.to_be_bytes());
        self.fields.push(Field { kind: FieldKind::RrTtl, offset: self.buf.len(), len: 4, section });
        self.buf.extend_from_slice(&ttl.to_be_bytes());
        let rdl = self.buf.len();
        self.fields.push(Field { kind: FieldKind::Rdlength, offset: rdl, len: 2, section });
        self.buf.extend_from_slice(&[0, 0]);
        rdata(self);
        let n = (self.buf.len() - rdl - 2) as u16;
        self.buf[rdl..rdl + 2].copy_from_slice(&n.to_be_bytes());
        self.fields.push(Field { kind: FieldKind::Record, offset: start, len: self.buf.len() - start, section });
        self.counts[section as usize] += 1;
        start
    }
    fn opt(&mut self, payload: u16, ttl: u32, options: &[(u16, &[u8])]) {
        let opts: Vec<(u16, Vec<u8>)> = options.iter().map(|(c, d)| (*c, d.to_vec())).collect();
        self.rr(3, &[], None, t::OPT, payload, ttl, &move |b: &mut B| {
            for (code, data) in &opts {
                b.buf.extend_from_slice(&code.to_be_bytes());
                b.fields.push(Field { kind: FieldKind::OptLen, offset: b.buf.len(), len: 2, section: 3 });
                b.buf.extend_from_slice(&(data.len() as u16).to_be_bytes());
                b.buf.extend_from_slice(data);
            }
        });
    }
    fn finish_counts(&mut self) {
        for k in 0..4 {
            let c = self.counts[k].to_be_bytes();
            self.buf[4 + 2 * k] = c[0];
            self.buf[5 + 2 * k] = c[1];
        }
    }
    /// Appends a TSIG RR signing everything written so far.
    fn tsig(&mut self, key_name: &[u8], alg: Alg, alg_name: &[u8], secret: &[u8], time: u64, fudge: u16, truncate: Option<usize>, corrupt_mac: bool) -> Vec<u8> {
        self.finish_counts();
        let id = u16::from_be_bytes([self.buf[0], self.buf[1]]);
        let vars = reftsig::TsigVars { key_name: key_name.to_vec(), alg_name: alg_name.to_vec(), time_signed: time, fudge, error: 0, other: vec![] };
        let mut counted = self.buf.clone();
        let ar = self.counts[3] + 1;
        counted[10..12].copy_from_slice(&ar.to_be_bytes());
        let full = reftsig::mac_request(alg, secret, &counted, id, &vars);
        let mut sent = match truncate {
            Some(n) => full[..n.min(full.len())].to_vec(),
            None => full.clone(),
        };
        if corrupt_mac && !sent.is_empty() {
            sent[0] ^= 0x01;
        }
        let kl = wire::labels(key_name).iter().map(|l| l.to_vec()).collect::<Vec<_>>();
        let klr: Vec<&[u8]> = kl.iter().map(|l| &l[..]).collect();
        let alg_name = alg_name.to_vec();
        let sent2 = sent.clone();
        self.rr(3, &klr, None, t::TSIG, c::ANY, 0, &move |b: &mut B| {
            b.wname(&alg_name, 3);
            b.buf.extend_from_slice(&time.to_be_bytes()[2..8]);
            b.buf.extend_from_slice(&fudge.to_be_bytes());
            b.fields.push(Field { kind: FieldKind::MacSize, offset: b.buf.len(), len: 2, section: 3 });
            b.buf.extend_from_slice(&(sent2.len() as u16).to_be_bytes());
            b.buf.extend_from_slice(&sent2);
            b.buf.extend_from_slice(&id.to_be_bytes());
            b.buf.extend_from_slice(&0u16.to_be_bytes());
            b.fields.push(Field { kind: FieldKind::OtherLen, offset: b.buf.len(), len: 2, section: 3 });
            b.buf.extend_from_slice(&0u16.to_be_bytes());
        });
        sent
    }
    fn done(mut self, name: &str, tsig: Option<TsigInfo>) -> Template {
        self.finish_counts();
        Template { name: name.to_string(), bytes: self.buf, fields: self.fields, tsig }
    }
}

fn labels_of(s: &str) -> Vec<Vec<u8>> {
    wire::labels(&wname(s)).iter().map(|l| l.to_vec()).collect()
}

fn a_rdata(b: &mut B) {
    b.buf.extend_from_slice(&[192, 0, 2, 1]);
}

/// The template menu. Names refer to the fixture zone `t.` (see `fixtures`).
pub fn requests() -> Vec<Template> {
    let mut out = Vec::new();
    let q = |name: &str, qname: &str, qtype: u16, qclass: u16, flags: u16| -> Template {
        let mut b = B::new(0x1234, flags);
        let ls = labels_of(qname);
        let lr: Vec<&[u8]> = ls.iter().map(|l| &l[..]).collect();
        b.question(&lr, None, qtype, qclass);
        b.done(name, None)
    };
    // --- plain queries with different outcomes
    out.push(q("plain-a", "a.t.", t::A, c::IN, 0x0100));
    out.push(q("plain-mixedcase", "A.t.", t::A, c::IN, 0));
    out.push(q("plain-nxdomain", "nope.t.", t::A, c::IN, 0));
    out.push(q("plain-nodata", "a.t.", t::MX, c::IN, 0));
    out.push(q("plain-cname", "c2.t.", t::A, c::IN, 0));
    out.push(q("plain-referral", "x.d.t.", t::A, c::IN, 0));
    out.push(q("plain-wildcard", "q.w.t.", t::A, c::IN, 0));
    out.push(q("plain-any", "t.", t::ANY, c::IN, 0));
    out.push(q("plain-soa", "t.", t::SOA, c::IN, 0));
    out.push(q("plain-ns", "t.", t::NS, c::IN, 0));
    out.push(q("plain-mx", "t.", t::MX, c::IN, 0));
    out.push(q("plain-txt-big", "big.t.", t::TXT, c::IN, 0));
    out.push(q("plain-refused", "other.example.", t::A, c::IN, 0));
    out.push(q("plain-root", ".", t::NS, c::IN, 0));
    out.push(q("plain-axfr", "t.", t::AXFR, c::IN, 0));
    out.push(q("plain-class-any", "a.t.", t::A, c::ANY, 0));
    out.push(q("plain-class-ch", "a.t.", t::A, c::CH, 0));
    out.push(q("opcode-notify", "t.", t::SOA, c::IN, 4 << 11));
    out.push(q("opcode-update", "t.", t::SOA, c::IN, 5 << 11));
    out.push(q("opcode-status", "t.", t::A, c::IN, 2 << 11));
    // --- long names
    {
        let l63 = vec![b'x'; 63];
        let mut b = B::new(1, 0);
        b.question(&[&l63, &l63, &l63, &vec![b'y'; 59], b"t"], None, t::A, c::IN); // 4*64+... = 255? 64*3+60+2+1 = 255
        out.push(b.done("qname-255", None));
        let mut b = B::new(1, 0);
        b.question(&[&l63, b"t"], None, t::A, c::IN);
        out.push(b.done("qname-label63", None));
    }
    // --- no question, two questions
    {
        let b = B::new(2, 0);
        out.push(b.done("no-question", None));
        let mut b = B::new(2, 0);
        b.question(&[b"a", b"t"], None, t::A, c::IN);
        b.question(&[b"b", b"t"], None, t::A, c::IN);
        out.push(b.done("two-questions", None));
    }
    // --- compressed QNAME (pointer back into the header is the only legal
    // backwards target for the first name; use a self-contained trick: the
    // question name ends with a pointer to offset 12+2, i.e. its own second
    // label is not allowed; so compressed names are exercised in records)
    {
        let mut b = B::new(3, 0);
        let qs = b.question(&[b"a", b"t"], None, t::A, c::IN);
        // answer record whose owner is a pointer to the QNAME
        b.rr(1, &[], Some(qs), t::A, c::IN, 60, &a_rdata);
        // authority NS whose owner points to "t" inside the QNAME and whose
        // RDATA is a compressed name
        let t_off = qs + 2;
        b.rr(2, &[], Some(t_off), t::NS, c::IN, 60, &move |b: &mut B| b.name(&[b"ns"], Some(t_off), 2));
        b.rr(3, &[b"ns"], Some(t_off), t::A, c::IN, 60, &a_rdata);
        out.push(b.done("records-compressed", None));
    }
    // --- extra records of assorted types in every section
    {
        let mut b = B::new(4, 0);
        b.question(&[b"a", b"t"], None, t::A, c::IN);
        b.rr(1, &[b"a", b"t"], None, t::MX, c::IN, 1, &|b: &mut B| {
            b.buf.extend_from_slice(&[0, 10]);
            b.name(&[b"mail", b"t"], None, 1)
        });
        b.rr(2, &[b"t"], None, t::SOA, c::IN, 1, &|b: &mut B| {
            b.name(&[b"ns", b"t"], None, 2);
            b.name(&[b"admin", b"t"], None, 2);
            b.buf.extend_from_slice(&[0; 20]);
        });
        b.rr(3, &[b"a", b"t"], None, t::TXT, c::IN, 1, &|b: &mut B| b.buf.extend_from_slice(b"\x05hello"));
        b.rr(3, &[b"a", b"t"], None, 65280, c::IN, 1, &|b: &mut B| b.buf.extend_from_slice(b"\x01\x02\x03"));
        out.push(b.done("records-uncompressed", None));
    }
    // --- EDNS variants
    for (name, payload, ttl, opts) in [
        ("edns-1232", 1232u16, 0u32, vec![]),
        ("edns-512", 512, 0, vec![]),
        ("edns-small", 100, 0, vec![]),
        ("edns-4096-do", 4096, 0x8000, vec![]),
        ("edns-65535", 65535, 0, vec![]),
        ("edns-option", 1232, 0, vec![(10u16, &b"\x01\x02\x03\x04\x05\x06\x07\x08"[..])]),
        ("edns-two-options", 1232, 0, vec![(10u16, &b"12345678"[..]), (12, &b""[..])]),
        ("edns-version1", 1232, 0x0001_0000, vec![]),
        ("edns-extrcode", 1232, 0xff00_0000, vec![]),
    ] {
        let mut b = B::new(5, 0x0100);
        b.question(&[b"a", b"t"], None, t::A, c::IN);
        b.opt(payload, ttl, &opts);
        out.push(b.done(name, None));
    }
    {
        // EDNS + big answer (truncation interplay)
        let mut b = B::new(5, 0);
        b.question(&[b"big", b"t"], None, t::TXT, c::IN);
        b.opt(1232, 0, &[]);
        out.push(b.done("edns-big", None));
        // OPT preceded by an ordinary additional record
        let mut b = B::new(5, 0);
        b.question(&[b"a", b"t"], None, t::A, c::IN);
        b.rr(3, &[b"x"], None, t::A, c::IN, 1, &a_rdata);
        b.opt(1232, 0, &[]);
        out.push(b.done("edns-after-record", None));
    }
    // --- TSIG variants
    let k1 = wname(KEY1_NAME);
    let k2 = wname(KEY2_NAME);
    let mk = |name: &str, qname: &str, edns: bool, key_name: &[u8], alg: Alg, alg_name: &[u8], secret: &[u8], time: u64, trunc: Option<usize>, corrupt: bool, valid: bool| -> Template {
        let mut b = B::new(0x7777, 0);
        let ls = labels_of(qname);
        let lr: Vec<&[u8]> = ls.iter().map(|l| &l[..]).collect();
        b.question(&lr, None, t::A, c::IN);
        if edns {
            b.opt(1232, 0, &[]);
        }
        let mac = b.tsig(key_name, alg, alg_name, secret, time, 300, trunc, corrupt);
        b.done(name, Some(TsigInfo { key_name: key_name.to_vec(), alg, secret: secret.to_vec(), time_signed: time, request_mac: mac, valid }))
    };
    out.push(mk("tsig-valid-sha256", "a.t.", false, &k1, Alg::Sha256, &Alg::Sha256.wire_name(), KEY1_SECRET, TSIG_TIME, None, false, true));
    out.push(mk("tsig-valid-sha1", "a.t.", false, &k2, Alg::Sha1, &Alg::Sha1.wire_name(), KEY2_SECRET, TSIG_TIME, None, false, true));
    out.push(mk("tsig-valid-edns", "c2.t.", true, &k1, Alg::Sha256, &Alg::Sha256.wire_name(), KEY1_SECRET, TSIG_TIME, None, false, true));
    out.push(mk("tsig-valid-truncated16", "a.t.", false, &k1, Alg::Sha256, &Alg::Sha256.wire_name(), KEY1_SECRET, TSIG_TIME, Some(16), false, true));
    out.push(mk("tsig-mac-too-short", "a.t.", false, &k1, Alg::Sha256, &Alg::Sha256.wire_name(), KEY1_SECRET, TSIG_TIME, Some(9), false, false));
    out.push(mk("tsig-bad-mac", "a.t.", false, &k1, Alg::Sha256, &Alg::Sha256.wire_name(), KEY1_SECRET, TSIG_TIME, None, true, false));
    out.push(mk("tsig-wrong-secret", "a.t.", false, &k1, Alg::Sha256, &Alg::Sha256.wire_name(), b"not the secret", TSIG_TIME, None, false, false));
    out.push(mk("tsig-unknown-key", "a.t.", false, &wname("nokey."), Alg::Sha256, &Alg::Sha256.wire_name(), KEY1_SECRET, TSIG_TIME, None, false, false));
    out.push(mk("tsig-unknown-alg", "a.t.", false, &k1, Alg::Sha256, &wname("hmac-md5.sig-alg.reg.int."), KEY1_SECRET, TSIG_TIME, None, false, false));
    out.push(mk("tsig-key-other-alg", "a.t.", false, &k1, Alg::Sha1, &Alg::Sha1.wire_name(), KEY1_SECRET, TSIG_TIME, None, false, false));
    out.push(mk("tsig-stale", "a.t.", false, &k1, Alg::Sha256, &Alg::Sha256.wire_name(), KEY1_SECRET, TSIG_TIME - 301, None, false, false));
    out.push(mk("tsig-future", "a.t.", false, &k1, Alg::Sha256, &Alg::Sha256.wire_name(), KEY1_SECRET, TSIG_TIME + 301, None, false, false));
    out.push(mk("tsig-big-answer", "big.t.", true, &k1, Alg::Sha256, &Alg::Sha256.wire_name(), KEY1_SECRET, TSIG_TIME, None, false, true));
    {
        // The 807-octet shape of D3: 255-octet QNAME, 255-octet key and
        // algorithm names.
        let l63 = vec![b'x'; 63];
        let long = wire::wname_from_labels(&[&l63[..], &l63[..], &l63[..], &vec![b'k'; 61][..]]);
        assert_eq!(long.len(), 255);
        let mut b = B::new(9, 0);
        b.question(&[&l63, &l63, &l63, &vec![b'y'; 61]], None, t::A, c::IN);
        let mac = b.tsig(&long, Alg::Sha256, &long, KEY1_SECRET, TSIG_TIME, 300, None, false);
        out.push(b.done("tsig-huge-names", Some(TsigInfo { key_name: long.clone(), alg: Alg::Sha256, secret: KEY1_SECRET.to_vec(), time_signed: TSIG_TIME, request_mac: mac, valid: false })));
        // Same with a known (long) key name so that verification succeeds.
        let mut b = B::new(9, 0);
        b.question(&[&l63, &l63, &l63, &vec![b'y'; 61]], None, t::A, c::IN);
        let mac = b.tsig(&long, Alg::Sha256, &Alg::Sha256.wire_name(), KEY1_SECRET, TSIG_TIME, 300, None, false);
        out.push(b.done("tsig-long-key-valid", Some(TsigInfo { key_name: long, alg: Alg::Sha256, secret: KEY1_SECRET.to_vec(), time_signed: TSIG_TIME, request_mac: mac, valid: true })));
    }
    out
}

/// Template by name.
pub fn by_name(name: &str) -> Option<Template> {
    requests().into_iter().find(|t| t.name == name)
}
