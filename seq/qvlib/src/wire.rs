//! Independent RFC 1035 wire codec, written from the RFCs; it never calls
//! quandary. Names are handled as `Vec<u8>` in uncompressed wire form
//! ("WName"), case preserved.

use std::collections::BTreeSet;

pub type WName = Vec<u8>;

// ---------------------------------------------------------------- codes

pub mod t {
    pub const A: u16 = 1;
    pub const NS: u16 = 2;
    pub const MD: u16 = 3;
    pub const MF: u16 = 4;
    pub const CNAME: u16 = 5;
    pub const SOA: u16 = 6;
    pub const MB: u16 = 7;
    pub const MG: u16 = 8;
    pub const MR: u16 = 9;
    pub const NULL: u16 = 10;
    pub const WKS: u16 = 11;
    pub const PTR: u16 = 12;
    pub const HINFO: u16 = 13;
    pub const MINFO: u16 = 14;
    pub const MX: u16 = 15;
    pub const TXT: u16 = 16;
    pub const AAAA: u16 = 28;
    pub const SRV: u16 = 33;
    pub const OPT: u16 = 41;
    pub const TSIG: u16 = 250;
    pub const IXFR: u16 = 251;
    pub const AXFR: u16 = 252;
    pub const MAILB: u16 = 253;
    pub const MAILA: u16 = 254;
    pub const ANY: u16 = 255;
}
pub mod c {
    pub const IN: u16 = 1;
    pub const CH: u16 = 3;
    pub const HS: u16 = 4;
    pub const NONE: u16 = 254;
    pub const ANY: u16 = 255;
}
pub mod rc {
    pub const NOERROR: u8 = 0;
    pub const FORMERR: u8 = 1;
    pub const SERVFAIL: u8 = 2;
    pub const NXDOMAIN: u8 = 3;
    pub const NOTIMP: u8 = 4;
    pub const REFUSED: u8 = 5;
    pub const NOTAUTH: u8 = 9;
}

// ---------------------------------------------------------------- names

/// Parses dotted text ("a.b.", ".", with `\DDD` and `\c` escapes) into wire
/// form. Panics on malformed input: this is for building test data only.
pub fn wname(text: &str) -> WName {
    let b = text.as_bytes();
    if b == b"." {
        return vec![0];
    }
    assert!(b.last() == Some(&b'.'), "wname needs an absolute name: {text}");
    let mut out = Vec::new();
    let mut label: Vec<u8> = Vec::new();
    let mut i = 0;
    while i < b.len() {
        match b[i] {
            b'.' => {
                assert!(!label.is_empty() && label.len() <= 63, "bad label in {text}");
                out.push(label.len() as u8);
                out.extend_from_slice(&label);
                label.clear();
                i += 1;
            }
            b'\\' => {
                if i + 3 < b.len() && b[i + 1].is_ascii_digit() {
                    let v = (b[i + 1] - b'0') as u32 * 100 + (b[i + 2] - b'0') as u32 * 10 + (b[i + 3] - b'0') as u32;
                    label.push(v as u8);
                    i += 4;
                } else {
                    label.push(b[i + 1]);
                    i += 2;
                }
            }
            ch => {
                label.push(ch);
                i += 1;
            }
        }
    }
    out.push(0);
    assert!(out.len() <= 255, "name too long: {text}");
    out
}

/// Builds a wire name from raw labels (no length checks: may be used to build
/// deliberately invalid names).
pub fn wname_from_labels<L: AsRef<[u8]>>(labels: &[L]) -> WName {
    let mut out = Vec::new();
    for l in labels {
        out.push(l.as_ref().len() as u8);
        out.extend_from_slice(l.as_ref());
    }
    out.push(0);
    out
}

/// Splits a valid uncompressed wire name into its labels (without the root).
pub fn labels(n: &[u8]) -> Vec<&[u8]> {
    let mut out = Vec::new();
    let mut i = 0;
    while i < n.len() && n[i] != 0 {
        let l = n[i] as usize;
        out.push(&n[i + 1..i + 1 + l]);
        i += 1 + l;
    }
    out
}

/// RFC 1035 §5.1 text form of a wire name (independent of quandary's).
pub fn name_text(n: &[u8]) -> String {
    let ls = labels(n);
    if ls.is_empty() {
        return ".".to_string();
    }
    let mut s = String::new();
    for l in ls {
        for &ch in l {
            if ch == b'.' || ch == b'\\' {
                s.push('\\');
                s.push(ch as char);
            } else if ch > 0x20 && ch < 0x7f {
                s.push(ch as char);
            } else {
                s.push_str(&format!("\\{ch:03}"));
            }
        }
        s.push('.');
    }
    s
}

pub fn lower(n: &[u8]) -> WName {
    // Length octets are <= 63 and therefore unaffected by ASCII lower-casing.
    n.iter().map(|b| b.to_ascii_lowercase()).collect()
}

pub fn eq_ci(a: &[u8], b: &[u8]) -> bool {
    let (la, lb) = (labels(a), labels(b));
    la.len() == lb.len() && la.iter().zip(lb.iter()).all(|(x, y)| x.eq_ignore_ascii_case(y))
}

/// `child` is equal to or a subdomain of `parent` (ASCII case-insensitive).
pub fn eq_or_subdomain(child: &[u8], parent: &[u8]) -> bool {
    let c = labels(child);
    let p = labels(parent);
    if p.len() > c.len() {
        return false;
    }
    let off = c.len() - p.len();
    p.iter().enumerate().all(|(i, l)| l.eq_ignore_ascii_case(c[off + i]))
}

/// The name with its first label removed (None for the root).
pub fn parent(n: &[u8]) -> Option<WName> {
    if n.first().copied().unwrap_or(0) == 0 {
        None
    } else {
        Some(n[1 + n[0] as usize..].to_vec())
    }
}

/// Prepends `label` to `n`.
pub fn child(label: &[u8], n: &[u8]) -> WName {
    let mut out = vec![label.len() as u8];
    out.extend_from_slice(label);
    out.extend_from_slice(n);
    out
}

/// If a valid uncompressed name (labels <= 63, total <= 255, no pointers)
/// starts at `buf[0]`, returns its length.
pub fn valid_uncompressed_len(buf: &[u8]) -> Option<usize> {
    let mut i = 0;
    loop {
        let l = *buf.get(i)? as usize;
        if l > 63 {
            return None;
        }
        i += 1 + l;
        if i > 255 {
            return None;
        }
        if l == 0 {
            return Some(i);
        }
        if i > buf.len() {
            return None;
        }
    }
}

/// True iff `buf` is exactly one valid uncompressed name.
pub fn is_valid_uncompressed_all(buf: &[u8]) -> bool {
    valid_uncompressed_len(buf) == Some(buf.len())
}

// ------------------------------------------------------- name decoding

#[derive(Clone, Copy, Debug, PartialEq, Eq)]
pub enum PtrRule {
    /// A pointer must target an offset before the start of the chunk that
    /// contains it (the rule quandary documents; used for C14/C15).
    BeforeChunkStart,
    /// A pointer must target an offset before the pointer itself.
    BeforePointer,
}

#[derive(Clone, Debug, PartialEq, Eq)]
pub enum NameErr {
    Eom,
    LabelTooLong, // includes the reserved 0x40 / 0x80 label types
    NameTooLong,
    BadPointer,
}

#[derive(Clone, Debug)]
pub struct NameDecode {
    pub name: WName,
    /// Length of the first chunk: what a reader must skip at `start`.
    pub first_chunk_len: usize,
    /// (offset of the pointer, target)
    pub pointers: Vec<(usize, usize)>,
    /// Message offsets at which a literal label of this name starts
    /// (including the terminating root label), in every chunk visited.
    pub label_offsets: Vec<usize>,
}

/// RFC 1035 §4.1.4 decoder.
pub fn decode_name(msg: &[u8], start: usize, rule: PtrRule) -> Result<NameDecode, NameErr> {
    let mut name = Vec::new();
    let mut pointers = Vec::new();
    let mut label_offsets = Vec::new();
    let mut first_chunk_len = None;
    let mut chunk_start = start;
    let mut i = start;
    loop {
        let l = *msg.get(i).ok_or(NameErr::Eom)?;
        if l & 0xc0 == 0xc0 {
            let lo = *msg.get(i + 1).ok_or(NameErr::Eom)?;
            let target = (((l & 0x3f) as usize) << 8) | lo as usize;
            let limit = match rule {
                PtrRule::BeforeChunkStart => chunk_start,
                PtrRule::BeforePointer => i,
            };
            if target >= limit {
                return Err(NameErr::BadPointer);
            }
            pointers.push((i, target));
            if first_chunk_len.is_none() {
                first_chunk_len = Some(i + 2 - start);
            }
            // Loop guard (only needed for BeforePointer with odd inputs; the
            // strict decrease of chunk starts bounds the other rule).
            if pointers.len() > 16384 {
                return Err(NameErr::BadPointer);
            }
            chunk_start = target;
            i = target;
        } else if l > 63 {
            return Err(NameErr::LabelTooLong);
        } else {
            let l = l as usize;
            label_offsets.push(i);
            if l == 0 {
                name.push(0);
                if name.len() > 255 {
                    return Err(NameErr::NameTooLong);
                }
                if first_chunk_len.is_none() {
                    first_chunk_len = Some(i + 1 - start);
                }
                return Ok(NameDecode {
                    name,
                    first_chunk_len: first_chunk_len.unwrap(),
                    pointers,
                    label_offsets,
                });
            }
            if i + 1 + l > msg.len() {
                return Err(NameErr::Eom);
            }
            name.extend_from_slice(&msg[i..i + 1 + l]);
            if name.len() + 1 > 255 {
                return Err(NameErr::NameTooLong);
            }
            i += 1 + l;
        }
    }
}

// ------------------------------------------------------------- RDATA

/// Field grammar of RDATA.
#[derive(Clone, Copy, Debug, PartialEq, Eq)]
pub enum F {
    /// Domain name that RFC 3597 §4 allows to be compressed (RFC 1035 types).
    NameC,
    /// Domain name that must not be compressed on output.
    NameU,
    Fixed(usize),
    /// Exactly one <character-string>.
    CharStr,
    /// One or more <character-string>s to the end.
    CharStrs1,
    /// At least `n` more octets to the end.
    RestMin(usize),
    /// EDNS options to the end.
    OptOptions,
    /// TSIG RDATA after the algorithm name.
    TsigTail,
}

/// Layout for the (class, type) pairs quandary knows; None = opaque.
pub fn layout(class: u16, typ: u16) -> Option<&'static [F]> {
    use F::*;
    Some(match (class, typ) {
        (_, t::NS) | (_, t::MD) | (_, t::MF) | (_, t::CNAME) | (_, t::MB) | (_, t::MG) | (_, t::MR) | (_, t::PTR) => &[NameC],
        (_, t::SOA) => &[NameC, NameC, Fixed(20)],
        (_, t::MINFO) => &[NameC, NameC],
        (_, t::MX) => &[Fixed(2), NameC],
        (_, t::HINFO) => &[CharStr, CharStr],
        (_, t::TXT) => &[CharStrs1],
        (c::IN, t::A) => &[Fixed(4)],
        (c::CH, t::A) => &[NameU, Fixed(2)],
        (c::IN, t::WKS) => &[Fixed(5), RestMin(0)],
        (c::IN, t::AAAA) => &[Fixed(16)],
        (c::IN, t::SRV) => &[Fixed(6), NameU],
        (_, t::OPT) => &[OptOptions],
        (_, t::TSIG) => &[NameU, TsigTail],
        _ => return None,
    })
}

/// Validates *uncompressed* RDATA against its layout (true for opaque types).
pub fn rdata_valid(class: u16, typ: u16, rd: &[u8]) -> bool {
    if rd.len() > 65535 {
        return false;
    }
    let Some(lay) = layout(class, typ) else { return true };
    let mut i = 0;
    for f in lay {
        match *f {
            F::NameC | F::NameU => match valid_uncompressed_len(&rd[i..]) {
                Some(n) => i += n,
                None => return false,
            },
            F::Fixed(n) => {
                if i + n > rd.len() {
                    return false;
                }
                i += n;
            }
            F::CharStr => {
                let Some(&l) = rd.get(i) else { return false };
                if i + 1 + l as usize > rd.len() {
                    return false;
                }
                i += 1 + l as usize;
            }
            F::CharStrs1 => {
                if i >= rd.len() {
                    return false;
                }
                while i < rd.len() {
                    let l = rd[i] as usize;
                    if i + 1 + l > rd.len() {
                        return false;
                    }
                    i += 1 + l;
                }
            }
            F::RestMin(n) => {
                if rd.len() - i < n {
                    return false;
                }
                i = rd.len();
            }
            F::OptOptions => {
                while i < rd.len() {
                    if i + 4 > rd.len() {
                        return false;
                    }
                    let l = u16::from_be_bytes([rd[i + 2], rd[i + 3]]) as usize;
                    if i + 4 + l > rd.len() {
                        return false;
                    }
                    i += 4 + l;
                }
            }
            F::TsigTail => {
                // time(6) fudge(2) macsize(2) mac origid(2) error(2) otherlen(2) other
                if i + 10 > rd.len() {
                    return false;
                }
                let ms = u16::from_be_bytes([rd[i + 8], rd[i + 9]]) as usize;
                i += 10;
                if i + ms + 6 > rd.len() {
                    return false;
                }
                i += ms + 4;
                let ol = u16::from_be_bytes([rd[i], rd[i + 1]]) as usize;
                i += 2;
                if i + ol != rd.len() {
                    return false;
                }
                i += ol;
            }
        }
    }
    i == rd.len()
}

/// Offsets (within uncompressed RDATA) and lengths of the embedded names, if
/// the RDATA is valid for its layout.
pub fn rdata_name_fields(class: u16, typ: u16, rd: &[u8]) -> Option<Vec<(usize, usize)>> {
    if !rdata_valid(class, typ, rd) {
        return None;
    }
    let lay = layout(class, typ)?;
    let mut out = Vec::new();
    let mut i = 0;
    for f in lay {
        match *f {
            F::NameC | F::NameU => {
                let n = valid_uncompressed_len(&rd[i..])?;
                out.push((i, n));
                i += n;
            }
            F::Fixed(n) => i += n,
            F::CharStr => i += 1 + rd[i] as usize,
            _ => break,
        }
    }
    Some(out)
}

#[derive(Clone, Debug)]
pub struct RdataDecode {
    /// RDATA with every embedded name decompressed.
    pub uncompressed: Vec<u8>,
    /// Pointers found inside the RDATA: (offset, target, in a NameC field?)
    pub pointers: Vec<(usize, usize, bool)>,
    pub label_offsets: Vec<usize>,
}

/// Decodes RDATA located at `msg[off..off+rdlen]`, following compression
/// pointers in name fields (both NameC and NameU: the caller decides whether
/// a pointer in a NameU field is a violation).
pub fn decode_rdata(msg: &[u8], off: usize, rdlen: usize, class: u16, typ: u16, rule: PtrRule) -> Result<RdataDecode, String> {
    if off + rdlen > msg.len() {
        return Err("RDATA runs past the end of the message".into());
    }
    let end = off + rdlen;
    // Names inside RDATA must not run past the RDATA; give the name decoder
    // only the message up to the end of the RDATA.
    let bounded = &msg[..end];
    let Some(lay) = layout(class, typ) else {
        return Ok(RdataDecode { uncompressed: msg[off..end].to_vec(), pointers: vec![], label_offsets: vec![] });
    };
    let mut out = Vec::new();
    let mut pointers = Vec::new();
    let mut label_offsets = Vec::new();
    let mut i = off;
    for f in lay {
        match *f {
            F::NameC | F::NameU => {
                let d = decode_name(bounded, i, rule).map_err(|e| format!("name in RDATA at {i}: {e:?}"))?;
                out.extend_from_slice(&d.name);
                for (a, b) in &d.pointers {
                    pointers.push((*a, *b, *f == F::NameC));
                }
                label_offsets.extend_from_slice(&d.label_offsets);
                i += d.first_chunk_len;
            }
            F::Fixed(n) => {
                if i + n > end {
                    return Err(format!("fixed field of {n} octets truncated"));
                }
                out.extend_from_slice(&msg[i..i + n]);
                i += n;
            }
            _ => {
                // Remaining grammar has no names: copy and validate below.
                out.extend_from_slice(&msg[i..end]);
                i = end;
                break;
            }
        }
    }
    if i != end {
        return Err(format!("RDATA has {} octets after its last field", end - i));
    }
    if !rdata_valid(class, typ, &out) {
        return Err("decompressed RDATA does not match its type's layout".into());
    }
    Ok(RdataDecode { uncompressed: out, pointers, label_offsets })
}

// ----------------------------------------------------------- messages

#[derive(Clone, Debug, Default, PartialEq, Eq)]
pub struct Header {
    pub id: u16,
    pub qr: bool,
    pub opcode: u8,
    pub aa: bool,
    pub tc: bool,
    pub rd: bool,
    pub ra: bool,
    /// The three reserved bits (Z, AD, CD positions), as a value 0..=7.
    pub z: u8,
    pub rcode: u8,
    pub qdcount: u16,
    pub ancount: u16,
    pub nscount: u16,
    pub arcount: u16,
}

impl Header {
    pub fn parse(b: &[u8]) -> Option<Header> {
        if b.len() < 12 {
            return None;
        }
        Some(Header {
            id: u16::from_be_bytes([b[0], b[1]]),
            qr: b[2] & 0x80 != 0,
            opcode: (b[2] >> 3) & 0xf,
            aa: b[2] & 0x04 != 0,
            tc: b[2] & 0x02 != 0,
            rd: b[2] & 0x01 != 0,
            ra: b[3] & 0x80 != 0,
            z: (b[3] >> 4) & 0x7,
            rcode: b[3] & 0xf,
            qdcount: u16::from_be_bytes([b[4], b[5]]),
            ancount: u16::from_be_bytes([b[6], b[7]]),
            nscount: u16::from_be_bytes([b[8], b[9]]),
            arcount: u16::from_be_bytes([b[10], b[11]]),
        })
    }
    pub fn flags_word(&self) -> u16 {
        ((self.qr as u16) << 15)
            | ((self.opcode as u16 & 0xf) << 11)
            | ((self.aa as u16) << 10)
            | ((self.tc as u16) << 9)
            | ((self.rd as u16) << 8)
            | ((self.ra as u16) << 7)
            | ((self.z as u16 & 7) << 4)
            | (self.rcode as u16 & 0xf)
    }
}

#[derive(Clone, Debug, PartialEq, Eq)]
pub struct Question {
    pub qname: WName,
    pub qtype: u16,
    pub qclass: u16,
    /// Octets of the question exactly as they appear in the message.
    pub raw: Vec<u8>,
    pub compressed: bool,
}

#[derive(Clone, Debug, PartialEq, Eq)]
pub struct Rr {
    pub name: WName,
    pub typ: u16,
    pub class: u16,
    pub ttl: u32,
    /// RDATA exactly as on the wire.
    pub rdata_raw: Vec<u8>,
    /// RDATA with embedded names decompressed (equal to `rdata_raw` for
    /// opaque types).
    pub rdata: Vec<u8>,
    pub offset: usize,
    pub rdata_offset: usize,
}

#[derive(Clone, Debug)]
pub struct PtrInfo {
    pub at: usize,
    pub target: usize,
    /// Where the pointer sits.
    pub place: PtrPlace,
    /// (class, type) of the record the pointer belongs to (0,0 for the
    /// question).
    pub class: u16,
    pub typ: u16,
}

#[derive(Clone, Copy, Debug, PartialEq, Eq)]
pub enum PtrPlace {
    Qname,
    Owner,
    RdataCompressible,
    RdataUncompressible,
}

#[derive(Clone, Debug)]
pub struct Msg {
    pub header: Header,
    pub questions: Vec<Question>,
    pub answers: Vec<Rr>,
    pub authority: Vec<Rr>,
    pub additional: Vec<Rr>,
    pub pointers: Vec<PtrInfo>,
    /// Every offset at which a literal label (including root labels) of a
    /// name field starts, in order of appearance.
    pub label_starts: BTreeSet<usize>,
    pub len: usize,
}

impl Msg {
    pub fn all_rrs(&self) -> impl Iterator<Item = &Rr> {
        self.answers.iter().chain(self.authority.iter()).chain(self.additional.iter())
    }
    pub fn opt(&self) -> Option<&Rr> {
        self.additional.iter().find(|r| r.typ == t::OPT)
    }
    pub fn tsig(&self) -> Option<&Rr> {
        self.additional.iter().find(|r| r.typ == t::TSIG)
    }
    /// Full 12-bit RCODE (OPT upper bits included).
    pub fn ext_rcode(&self) -> u16 {
        let upper = self.opt().map(|o| (o.ttl >> 24) as u16).unwrap_or(0);
        (upper << 4) | self.header.rcode as u16
    }
    /// Additional records other than OPT and TSIG.
    pub fn additional_data(&self) -> Vec<&Rr> {
        self.additional.iter().filter(|r| r.typ != t::OPT && r.typ != t::TSIG).collect()
    }
}

/// Strict decoder: the message must be consumed exactly, every name and
/// every RDATA of a known type must be well formed. In addition, with
/// `strict_pointers`, every pointer must land on the start of a literal label
/// of a name that started earlier in the message.
pub fn decode_message(b: &[u8], rule: PtrRule, strict_pointers: bool) -> Result<Msg, String> {
    let header = Header::parse(b).ok_or("shorter than a header")?;
    let mut m = Msg {
        header: header.clone(),
        questions: vec![],
        answers: vec![],
        authority: vec![],
        additional: vec![],
        pointers: vec![],
        label_starts: BTreeSet::new(),
        len: b.len(),
    };
    let mut i = 12;
    for q in 0..header.qdcount {
        let d = decode_name(b, i, rule).map_err(|e| format!("question {q}: QNAME at {i}: {e:?}"))?;
        check_ptrs(&m, &d, strict_pointers, i)?;
        for (a, t_) in &d.pointers {
            m.pointers.push(PtrInfo { at: *a, target: *t_, place: PtrPlace::Qname, class: 0, typ: 0 });
        }
        m.label_starts.extend(d.label_offsets.iter().copied().filter(|o| *o >= i));
        let e = i + d.first_chunk_len;
        if e + 4 > b.len() {
            return Err(format!("question {q}: fixed fields truncated"));
        }
        m.questions.push(Question {
            qname: d.name,
            qtype: u16::from_be_bytes([b[e], b[e + 1]]),
            qclass: u16::from_be_bytes([b[e + 2], b[e + 3]]),
            raw: b[i..e + 4].to_vec(),
            compressed: !d.pointers.is_empty(),
        });
        i = e + 4;
    }
    for (sec, count) in [(0, header.ancount), (1, header.nscount), (2, header.arcount)] {
        for k in 0..count {
            let start = i;
            let d = decode_name(b, i, rule).map_err(|e| format!("section {sec} record {k}: owner at {i}: {e:?}"))?;
            check_ptrs(&m, &d, strict_pointers, i)?;
            let e = i + d.first_chunk_len;
            if e + 10 > b.len() {
                return Err(format!("section {sec} record {k}: fixed fields truncated"));
            }
            let typ = u16::from_be_bytes([b[e], b[e + 1]]);
            let class = u16::from_be_bytes([b[e + 2], b[e + 3]]);
            let ttl = u32::from_be_bytes([b[e + 4], b[e + 5], b[e + 6], b[e + 7]]);
            let rdlen = u16::from_be_bytes([b[e + 8], b[e + 9]]) as usize;
            for (a, t_) in &d.pointers {
                m.pointers.push(PtrInfo { at: *a, target: *t_, place: PtrPlace::Owner, class, typ });
            }
            m.label_starts.extend(d.label_offsets.iter().copied().filter(|o| *o >= start));
            let ro = e + 10;
            if ro + rdlen > b.len() {
                return Err(format!("section {sec} record {k}: RDATA truncated"));
            }
            let rd = decode_rdata(b, ro, rdlen, class, typ, rule).map_err(|e| format!("section {sec} record {k} (type {typ}): {e}"))?;
            for (a, t_, comp) in &rd.pointers {
                // A pointer inside RDATA may also target a label of an
                // earlier name of the same RDATA (e.g. SOA RNAME compressed
                // onto MNAME): labels of this RDATA that start before the
                // pointer.
                let own_earlier = rd.label_offsets.iter().any(|o| o == t_ && *o >= ro && *o < *a);
                if strict_pointers && !m.label_starts.contains(t_) && !own_earlier {
                    return Err(format!("pointer at {a} targets {t_}, which is not the start of a label of an earlier name"));
                }
                m.pointers.push(PtrInfo {
                    at: *a,
                    target: *t_,
                    place: if *comp { PtrPlace::RdataCompressible } else { PtrPlace::RdataUncompressible },
                    class,
                    typ,
                });
            }
            m.label_starts.extend(rd.label_offsets.iter().copied().filter(|o| *o >= ro));
            let rr = Rr {
                name: d.name,
                typ,
                class,
                ttl,
                rdata_raw: b[ro..ro + rdlen].to_vec(),
                rdata: rd.uncompressed,
                offset: start,
                rdata_offset: ro,
            };
            match sec {
                0 => m.answers.push(rr),
                1 => m.authority.push(rr),
                _ => m.additional.push(rr),
            }
            i = ro + rdlen;
        }
    }
    if i != b.len() {
        return Err(format!("{} octets after the last counted record", b.len() - i));
    }
    Ok(m)
}

fn check_ptrs(m: &Msg, d: &NameDecode, strict: bool, _at: usize) -> Result<(), String> {
    if strict {
        for (a, t_) in &d.pointers {
            // A later chunk of the same name may be the target of a pointer of
            // this very name only if it is earlier in the message, which
            // label_starts (filled before this name) already covers.
            if !m.label_starts.contains(t_) {
                return Err(format!("pointer at {a} targets {t_}, which is not the start of a label of an earlier name"));
            }
        }
    }
    Ok(())
}

// ------------------------------------------------------------ building

/// Builds messages octet by octet; nothing is validated, so malformed
/// messages can be built on purpose.
#[derive(Clone, Debug, Default)]
pub struct MsgBuilder {
    pub buf: Vec<u8>,
    counts: [u16; 4],
    auto_counts: bool,
}

impl MsgBuilder {
    /// `flags` is the 16-bit word of header octets 2-3.
    pub fn new(id: u16, flags: u16) -> MsgBuilder {
        let mut buf = Vec::with_capacity(64);
        buf.extend_from_slice(&id.to_be_bytes());
        buf.extend_from_slice(&flags.to_be_bytes());
        buf.extend_from_slice(&[0; 8]);
        MsgBuilder { buf, counts: [0; 4], auto_counts: true }
    }
    /// A plain query header: opcode QUERY, RD clear.
    pub fn query(id: u16) -> MsgBuilder {
        MsgBuilder::new(id, 0)
    }
    pub fn len(&self) -> usize {
        self.buf.len()
    }
    pub fn question(mut self, qname: &[u8], qtype: u16, qclass: u16) -> Self {
        self.buf.extend_from_slice(qname);
        self.buf.extend_from_slice(&qtype.to_be_bytes());
        self.buf.extend_from_slice(&qclass.to_be_bytes());
        self.counts[0] += 1;
        self
    }
    /// `section`: 1 answer, 2 authority, 3 additional. `owner` is written
    /// verbatim (it may contain a pointer built with `ptr`).
    pub fn rr(mut self, section: usize, owner: &[u8], typ: u16, class: u16, ttl: u32, rdata: &[u8]) -> Self {
        self.buf.extend_from_slice(owner);
        self.buf.extend_from_slice(&typ.to_be_bytes());
        self.buf.extend_from_slice(&class.to_be_bytes());
        self.buf.extend_from_slice(&ttl.to_be_bytes());
        self.buf.extend_from_slice(&(rdata.len() as u16).to_be_bytes());
        self.buf.extend_from_slice(rdata);
        self.counts[section] += 1;
        self
    }
    /// An OPT record with root owner in the additional section.
    pub fn opt(self, payload: u16, ext_rcode_hi: u8, version: u8, flags: u16, rdata: &[u8]) -> Self {
        let ttl = ((ext_rcode_hi as u32) << 24) | ((version as u32) << 16) | flags as u32;
        self.rr(3, &[0], t::OPT, payload, ttl, rdata)
    }
    pub fn raw(mut self, octets: &[u8]) -> Self {
        self.buf.extend_from_slice(octets);
        self
    }
    /// Overrides the four header counts (disables automatic counting).
    pub fn counts(mut self, qd: u16, an: u16, ns: u16, ar: u16) -> Self {
        self.counts = [qd, an, ns, ar];
        self.auto_counts = false;
        self
    }
    pub fn build(mut self) -> Vec<u8> {
        for k in 0..4 {
            let c = self.counts[k].to_be_bytes();
            self.buf[4 + 2 * k] = c[0];
            self.buf[5 + 2 * k] = c[1];
        }
        self.buf
    }
}

/// A two-octet compression pointer.
pub fn ptr(target: usize) -> [u8; 2] {
    [0xc0 | ((target >> 8) as u8 & 0x3f), target as u8]
}

/// A plain query message.
pub fn simple_query(id: u16, qname: &[u8], qtype: u16, qclass: u16) -> Vec<u8> {
    MsgBuilder::query(id).question(qname, qtype, qclass).build()
}

// ------------------------------------------------- comparison helpers

/// Canonical form of an RR for multiset comparison: owner lower-cased,
/// embedded names of known types lower-cased.
pub fn canon_rr(rr: &Rr) -> (WName, u16, u16, u32, Vec<u8>) {
    (lower(&rr.name), rr.typ, rr.class, rr.ttl, canon_rdata(rr.class, rr.typ, &rr.rdata))
}

/// Lower-cases the embedded names of valid RDATA of a known type.
pub fn canon_rdata(class: u16, typ: u16, rd: &[u8]) -> Vec<u8> {
    let mut out = rd.to_vec();
    if let Some(fields) = rdata_name_fields(class, typ, rd) {
        for (o, n) in fields {
            for b in &mut out[o..o + n] {
                *b = b.to_ascii_lowercase();
            }
        }
    }
    out
}

pub fn sorted<T: Ord>(mut v: Vec<T>) -> Vec<T> {
    v.sort();
    v
}
