//! C08 — malformed requests are answered with FORMERR.
//!
//! Space: every request template of `qvlib::templates::requests()` under every
//! member of ten mutation families (each applied at *every* applicable
//! position), each result additionally under 4 opcodes x {no junk, one
//! appended octet}, x 2 server configurations (with / without TSIG keys) x
//! {UDP, TCP}. Oracle: `model::scan_all` (first problem in message order).

use qvlib::fixtures::{self, ServerCfg};
use qvlib::qd::{self, Cat, Tp};
use qvlib::templates::{self, FieldKind, Template, TSIG_TIME};
use qvlib::wire::{self, t};
use qvlib::{hex, json, panic_key, reftsig, unhex, Ctx, Local, Value};
use quandary::server::Server;

use crate::model::{self, KeyEntry, ScanCfg, Stop};

pub struct Srv {
    pub name: &'static str,
    pub server: Server<Cat>,
    pub keys: Vec<KeyEntry>,
}

pub fn servers() -> Vec<Srv> {
    let mk = |name: &'static str, tsig: bool| {
        let cfg = ServerCfg { name, edns_size: 1232, tsig, rrl: None };
        Srv {
            name,
            server: fixtures::make_server(qd::catalog_of(vec![fixtures::std_zone()]), cfg),
            keys: if tsig { model::fixture_keys() } else { vec![] },
        }
    };
    vec![mk("keys", true), mk("nokeys", false)]
}

/// Runs one request against one server and judges it. Returns the outcome
/// class and, if the response is not what some allowed reading of the request
/// demands, the violation key and details.
pub fn evaluate(srv: &Srv, req: &[u8], tp: Tp) -> (String, Option<(String, Value)>) {
    evaluate_on(&srv.server, &srv.keys, req, tp)
}

/// A server of its own per worker, with the key table, on which every UDP
/// request is sent twice under a limit of one response per second and stream:
/// the second response is rate limited (slip 1: truncated, records removed)
/// where the limiter applies, and must still carry the RCODE the request
/// demands.
pub struct Limited {
    server: Server<Cat>,
    keys: Vec<KeyEntry>,
}

pub fn limited() -> Limited {
    let cfg = ServerCfg { name: "keys-limited", edns_size: 1232, tsig: true, rrl: None };
    Limited { server: fixtures::make_server(qd::catalog_of(vec![fixtures::std_zone()]), cfg), keys: model::fixture_keys() }
}

pub fn evaluate_limited(lim: &mut Limited, req: &[u8]) -> (String, Option<(String, Value)>) {
    quandary::server::verif_hooks::set_tsig_unix_time(Some(TSIG_TIME));
    quandary::server::verif_hooks::set_rrl_elapsed(Some(std::time::Duration::from_secs(5)));
    let mut p = quandary::server::RrlParams::new(1, 1, 1, 1).expect("rrl params");
    p.set_slip(1);
    p.set_size(7).expect("rrl size");
    lim.server.set_rrl_params(Some(p)); // a fresh table
    let _ = qd::handle(&lim.server, req, qd::localhost(), Tp::Udp);
    let (class, v) = evaluate_on(&lim.server, &lim.keys, req, Tp::Udp);
    (format!("second-under-rate-limit: {class}"), v)
}

fn evaluate_on(server: &Server<Cat>, keys: &[KeyEntry], req: &[u8], tp: Tp) -> (String, Option<(String, Value)>) {
    quandary::server::verif_hooks::set_tsig_unix_time(Some(TSIG_TIME));
    let cfg = ScanCfg { keys, now: TSIG_TIME };
    let scans = model::scan_all(req, &cfg);
    let first = &scans[0];
    let resp = match qd::handle(server, req, qd::localhost(), tp) {
        Ok(r) => r,
        Err(p) => return (format!("{} -> panic", first.why), Some((panic_key(&p), json!({"panic": p})))),
    };
    if first.stop == Stop::NoResponse {
        // C03's territory; nothing is demanded here.
        return (format!("no-demand:{} -> {}", first.why, if resp.is_some() { "response" } else { "none" }), None);
    }
    let Some(resp) = resp else {
        return (format!("{} -> no-response", first.why), Some((format!("{}:no-response", first.why), json!({"expected": expect_text(first)}))));
    };
    let obs = match model::observe(&resp) {
        Ok(o) => o,
        Err(e) => return (format!("{} -> undecodable", first.why), Some(("undecodable-response".into(), json!({"response": hex(&resp), "decode_error": e})))),
    };
    let class = format!("{}{} -> {}", first.why, if scans.len() > 1 { "(+alt)" } else { "" }, obs.class());
    let mut err = None;
    for sc in &scans {
        // DESIGN.md §7a (C10): the response cannot hold the TSIG RR over UDP.
        if tp == Tp::Udp && sc.tsig_cannot_fit_udp(1232) && obs.tc && obs.n_tsig == 0 && obs.an == 0 && obs.ns == 0 && obs.ar_data == 0 {
            return (format!("{} -> tc-without-tsig(response cannot hold the TSIG RR)", first.why), None);
        }
        match model::judge_rcode(sc, &obs) {
            Ok(()) => return (class, None),
            Err(e) => err = err.or(Some(e)),
        }
    }
    let key = format!("{}:{}", first.why, err.unwrap());
    let detail = json!({
        "expected": scans.iter().map(expect_text).collect::<Vec<_>>(),
        "observed": {"rcode": obs.ext, "aa": obs.aa, "an": obs.an, "ns": obs.ns, "opt": obs.n_opt, "tsig": obs.n_tsig},
        "response": hex(&resp),
    });
    (class, Some((key, detail)))
}

fn expect_text(sc: &model::Scan) -> String {
    match &sc.stop {
        Stop::NoResponse => format!("{}: no response", sc.why),
        Stop::Completed => "no problem in the request: not FORMERR".to_string(),
        Stop::Problem { allowed } => format!("{}: {} without answer/authority data", sc.why, model::allowed_text(*allowed)),
    }
}

// ----------------------------------------------------------- mutations

/// Record layout of a template: end of the question section and
/// (offset, length, section) of every record, in message order.
struct Shape {
    qend: usize,
    recs: Vec<(usize, usize, u8)>,
}

fn shape(tm: &Template) -> Shape {
    let mut qend = 12;
    let mut recs = Vec::new();
    for f in &tm.fields {
        match f.kind {
            FieldKind::Question => qend = qend.max(f.offset + f.len),
            FieldKind::Record => recs.push((f.offset, f.len, f.section)),
            _ => {}
        }
    }
    recs.sort();
    Shape { qend, recs }
}

fn get_count(b: &[u8], k: usize) -> u16 {
    u16::from_be_bytes([b[4 + 2 * k], b[5 + 2 * k]])
}
fn set_count(b: &mut [u8], k: usize, v: u16) {
    b[4 + 2 * k..6 + 2 * k].copy_from_slice(&v.to_be_bytes());
}

/// Slots at which a record can be inserted: (byte position, lowest section,
/// highest section) — a record inserted between a record of section s1 and a
/// record of section s2 can be counted in any section s1..=s2.
fn slots(qend: usize, recs: &[(usize, usize, u8)]) -> Vec<(usize, u8, u8)> {
    let mut out = Vec::new();
    let mut lo = 1u8;
    let mut pos = qend;
    for &(off, len, sec) in recs {
        out.push((pos, lo, sec));
        lo = sec;
        pos = off + len;
    }
    out.push((pos, lo, 3));
    out
}

fn insert_record(b: &[u8], pos: usize, section: u8, rec: &[u8]) -> Vec<u8> {
    let mut m = Vec::with_capacity(b.len() + rec.len());
    m.extend_from_slice(&b[..pos]);
    m.extend_from_slice(rec);
    m.extend_from_slice(&b[pos..]);
    let c = get_count(&m, section as usize).wrapping_add(1);
    set_count(&mut m, section as usize, c);
    m
}

fn rr_bytes(owner: &[u8], typ: u16, class: u16, ttl: u32, rdata: &[u8]) -> Vec<u8> {
    let mut r = owner.to_vec();
    r.extend_from_slice(&typ.to_be_bytes());
    r.extend_from_slice(&class.to_be_bytes());
    r.extend_from_slice(&ttl.to_be_bytes());
    r.extend_from_slice(&(rdata.len() as u16).to_be_bytes());
    r.extend_from_slice(rdata);
    r
}

/// Records offered for insertion.
fn insert_menu() -> Vec<(&'static str, Vec<u8>)> {
    let tsig_rd = reftsig::tsig_rdata(&reftsig::Alg::Sha256.wire_name(), TSIG_TIME, 300, &[0x5a; 32], 0x1234, 0, &[]);
    // Owners whose first octet is a reserved label type (0b01 / 0b10 prefix),
    // followed by exactly as many octets as the low bits (or the whole octet)
    // would announce if it were taken for a length, then the root: a scanner
    // that skips such an octet as a long label finds a well-formed record.
    let reserved = |v: u8, skip: usize| {
        let mut o = vec![v];
        o.extend(std::iter::repeat(b'a').take(skip));
        o.push(0);
        rr_bytes(&o, t::A, 1, 1, &[192, 0, 2, 9])
    };
    vec![
        ("reserved-label-0x40", reserved(0x40, 0x40)),
        ("reserved-label-0x41-low", reserved(0x41, 1)),
        ("reserved-label-0x7f", reserved(0x7f, 0x7f)),
        ("reserved-label-0x80", reserved(0x80, 0x80)),
        ("reserved-label-0x81-low", reserved(0x81, 1)),
        ("reserved-label-0xa5", reserved(0xa5, 0xa5)),
        ("reserved-label-0xbf", reserved(0xbf, 0xbf)),
        ("reserved-label-0xbf-low", reserved(0xbf, 0x3f)),
        ("opt", rr_bytes(&[0], t::OPT, 1232, 0, &[])),
        ("opt-v1", rr_bytes(&[0], t::OPT, 1232, 0x0001_0000, &[])),
        ("tsig-unknown-key", rr_bytes(&wire::wname("nokey."), t::TSIG, 255, 0, &tsig_rd)),
        ("tsig-k1-bad-mac", rr_bytes(&wire::wname("k1."), t::TSIG, 255, 0, &tsig_rd)),
        ("ordinary-a", rr_bytes(&wire::wname("x."), t::A, 1, 1, &[192, 0, 2, 9])),
    ]
}

const FAMILIES: &[&str] = &["identity", "truncate", "append", "counts", "bitflip", "byteset", "insert", "move", "tsig-fields", "drop-question"];

const APPEND_MENU: &[&[u8]] = &[
    &[0],
    &[0xff],
    &[0, 0],
    &[0xc0, 0x0c],
    &[0; 10],
    // A complete, but uncounted, record: root owner, type 0, RDLENGTH 0.
    &[0; 11],
    // A complete, uncounted OPT record.
    &[0, 0, 41, 4, 208, 0, 0, 0, 0, 0, 0],
];

const BYTE_VALUES_QUICK: &[u8] = &[0x00, 0x01, 0x29, 0x3f, 0x40, 0x80, 0xc0, 0xfa, 0xff];

/// Calls `f(description, mutated request)` for every member of `family`
/// applied to `tm`.
fn for_each_mutant(tm: &Template, family: &str, thorough: bool, f: &mut dyn FnMut(&dyn Fn() -> String, Vec<u8>)) {
    let b = &tm.bytes;
    match family {
        "identity" => f(&|| "identity".into(), b.clone()),
        "truncate" => {
            for n in 0..b.len() {
                f(&|| format!("truncate@{n}"), b[..n].to_vec());
            }
        }
        "append" => {
            for (i, s) in APPEND_MENU.iter().enumerate() {
                let mut m = b.clone();
                m.extend_from_slice(s);
                f(&|| format!("append#{i}({})", hex(s)), m);
            }
        }
        "counts" => {
            // All vectors within +-1 of the original counts ...
            for code in 0..81usize {
                if code == 40 {
                    continue; // all deltas zero
                }
                let mut m = b.clone();
                let mut c = code;
                let mut d = [0i32; 4];
                for k in 0..4 {
                    d[k] = (c % 3) as i32 - 1;
                    c /= 3;
                    let v = get_count(b, k).wrapping_add(d[k] as u16);
                    set_count(&mut m, k, v);
                }
                f(&|| format!("counts{d:?}"), m);
            }
            // ... and each single count forced to 0, 2, 0xffff.
            for k in 0..4 {
                for v in [0u16, 2, 0xffff] {
                    if get_count(b, k) == v {
                        continue;
                    }
                    let mut m = b.clone();
                    set_count(&mut m, k, v);
                    f(&|| format!("count[{k}]={v}"), m);
                }
            }
        }
        "bitflip" => {
            for i in 0..b.len() {
                for bit in 0..8 {
                    let mut m = b.clone();
                    m[i] ^= 1 << bit;
                    f(&|| format!("bitflip@{i}.{bit}"), m);
                }
            }
        }
        "byteset" => {
            for i in 0..b.len() {
                if thorough {
                    for v in 0..=255u8 {
                        if b[i] != v {
                            let mut m = b.clone();
                            m[i] = v;
                            f(&|| format!("byteset@{i}={v:#04x}"), m);
                        }
                    }
                } else {
                    for &v in BYTE_VALUES_QUICK {
                        if b[i] != v {
                            let mut m = b.clone();
                            m[i] = v;
                            f(&|| format!("byteset@{i}={v:#04x}"), m);
                        }
                    }
                }
            }
        }
        "insert" => {
            let sh = shape(tm);
            let mut menu = insert_menu();
            // Duplicates of the template's own OPT / TSIG records.
            for &(off, len, _) in &sh.recs {
                let r = &b[off..off + len];
                if let Some(p) = own_pseudo(b, off) {
                    menu.push((p, r.to_vec()));
                }
            }
            for (si, &(pos, lo, hi)) in slots(sh.qend, &sh.recs).iter().enumerate() {
                for sec in lo..=hi {
                    for (name, rec) in &menu {
                        f(&|| format!("insert:{name}@slot{si}/section{sec}"), insert_record(b, pos, sec, rec));
                    }
                }
            }
        }
        "move" => {
            let sh = shape(tm);
            for (ri, &(off, len, sec)) in sh.recs.iter().enumerate() {
                let Some(kind) = own_pseudo(b, off) else { continue };
                let rec = b[off..off + len].to_vec();
                // The message without that record.
                let mut base = b[..off].to_vec();
                base.extend_from_slice(&b[off + len..]);
                let c = get_count(&base, sec as usize).wrapping_sub(1);
                set_count(&mut base, sec as usize, c);
                let rest: Vec<(usize, usize, u8)> = sh
                    .recs
                    .iter()
                    .enumerate()
                    .filter(|(i, _)| *i != ri)
                    .map(|(_, &(o, l, s))| (if o > off { o - len } else { o }, l, s))
                    .collect();
                for (si, &(pos, lo, hi)) in slots(sh.qend, &rest).iter().enumerate() {
                    for s in lo..=hi {
                        if pos == off && s == sec {
                            continue; // that is the original message
                        }
                        f(&|| format!("move:{kind}#{ri}->slot{si}/section{s}"), insert_record(&base, pos, s, &rec));
                    }
                }
            }
        }
        "tsig-fields" => {
            for fd in &tm.fields {
                if fd.kind != FieldKind::Record || own_pseudo(b, fd.offset) != Some("own-tsig") {
                    continue;
                }
                // Fixed fields sit right after the (uncompressed) owner.
                let owner_len = wire::valid_uncompressed_len(&b[fd.offset..]).expect("template TSIG owner");
                let fx = fd.offset + owner_len;
                for class in [0u16, 1, 254, 0xffff] {
                    let mut m = b.clone();
                    m[fx + 2..fx + 4].copy_from_slice(&class.to_be_bytes());
                    f(&|| format!("tsig-class={class}"), m);
                }
                for ttl in [1u32, 0x7fff_ffff, 0x8000_0000, 0x8000_0001, 0xffff_ffff] {
                    let mut m = b.clone();
                    m[fx + 4..fx + 8].copy_from_slice(&ttl.to_be_bytes());
                    f(&|| format!("tsig-ttl={ttl:#x}"), m);
                }
                for (class, ttl) in [(1u16, 1u32), (1, 0x8000_0000)] {
                    let mut m = b.clone();
                    m[fx + 2..fx + 4].copy_from_slice(&class.to_be_bytes());
                    m[fx + 4..fx + 8].copy_from_slice(&ttl.to_be_bytes());
                    f(&|| format!("tsig-class={class},ttl={ttl:#x}"), m);
                }
            }
        }
        "drop-question" => {
            let sh = shape(tm);
            if sh.qend > 12 {
                let mut m = b[..12].to_vec();
                m.extend_from_slice(&b[sh.qend..]);
                set_count(&mut m, 0, 0);
                f(&|| "drop-question".into(), m);
            }
        }
        _ => unreachable!(),
    }
}

/// "own-opt" / "own-tsig" if the template record at `off` (owner without
/// pointers) is an OPT / TSIG record.
fn own_pseudo(b: &[u8], off: usize) -> Option<&'static str> {
    let n = wire::valid_uncompressed_len(&b[off..])?;
    match u16::from_be_bytes([b[off + n], b[off + n + 1]]) {
        t::OPT => Some("own-opt"),
        t::TSIG => Some("own-tsig"),
        _ => None,
    }
}

const OPCODES: &[Option<u8>] = &[None, Some(2), Some(5), Some(15)];

fn with_post(m: &[u8], opcode: Option<u8>, junk: bool) -> Vec<u8> {
    let mut r = m.to_vec();
    if let Some(op) = opcode {
        if r.len() > 2 {
            r[2] = (r[2] & 0x87) | (op << 3);
        }
    }
    if junk {
        r.push(0);
    }
    r
}

pub fn run(ctx: Ctx) -> ! {
    let srvs = servers();
    if let Some(case) = ctx.replay_case() {
        let req = unhex(case["request"].as_str().unwrap_or(""));
        let srv = srvs.iter().find(|s| s.name == case["server"].as_str().unwrap_or("keys")).unwrap_or(&srvs[0]);
        let tp = Tp::from_name(case["tp"].as_str().unwrap_or("udp"));
        let (class, v) = if case["server"].as_str() == Some("keys-limited") {
            let mut lim = limited();
            evaluate_limited(&mut lim, &req)
        } else {
            evaluate(srv, &req, tp)
        };
        eprintln!("replay: {class}");
        let mut l = ctx.local();
        l.tick();
        l.outcome(&class, || case.clone());
        if let Some((key, detail)) = v {
            eprintln!("replay: VIOLATED {key}: {detail}");
            l.violation(&key, json!({"request": hex(&req), "server": case["server"].as_str().unwrap_or(srv.name), "tp": tp.name(), "detail": detail}));
        } else {
            eprintln!("replay: holds");
        }
        drop(l);
        ctx.finish("exploration", "replay of one case", false);
    }

    let tmpls = templates::requests();
    let thorough = !ctx.quick();
    let mut items: Vec<(usize, &'static str)> = Vec::new();
    for ti in 0..tmpls.len() {
        for fam in FAMILIES {
            items.push((ti, fam));
        }
    }
    // Longest first, so the big "byteset" shards do not trail.
    items.sort_by_key(|(ti, fam)| std::cmp::Reverse(tmpls[*ti].bytes.len() * if *fam == "byteset" { 256 } else if *fam == "bitflip" { 8 } else { 1 }));
    let rot = (ctx.seed as usize) % items.len().max(1);
    items.rotate_left(rot);

    ctx.par_for_each(&items, |l: &mut Local, &(ti, fam)| {
        let tm = &tmpls[ti];
        let mut n_mut = 0u64;
        let mut lim = limited();
        for_each_mutant(tm, fam, thorough, &mut |desc, m| {
            n_mut += 1;
            for &op in OPCODES {
                for junk in [false, true] {
                    let req = with_post(&m, op, junk);
                    {
                        l.tick();
                        let (class, v) = evaluate_limited(&mut lim, &req);
                        let full = || {
                            json!({
                                "request": hex(&req), "server": "keys-limited", "tp": "udp",
                                "template": tm.name, "mutation": desc(),
                                "opcode_override": op, "junk_octet_appended": junk,
                            })
                        };
                        l.outcome(&class, full);
                        if let Some((key, detail)) = v {
                            let mut c = full();
                            c["detail"] = detail;
                            l.violation(&format!("rate-limited:{key}"), c);
                        }
                    }
                    for srv in &srvs {
                        for tp in [Tp::Udp, Tp::Tcp] {
                            l.tick();
                            let (class, v) = evaluate(srv, &req, tp);
                            let full = || {
                                json!({
                                    "request": hex(&req), "server": srv.name, "tp": tp.name(),
                                    "template": tm.name, "mutation": desc(),
                                    "opcode_override": op, "junk_octet_appended": junk,
                                })
                            };
                            l.outcome(&class, full);
                            if let Some((key, detail)) = v {
                                let mut c = full();
                                c["detail"] = detail;
                                l.violation(&key, c);
                            }
                        }
                    }
                }
            }
        });
        l.ctx().add_extra(&format!("mutants_{fam}"), n_mut);
    });
    ctx.set_extra("templates", json!(tmpls.len()));
    ctx.set_extra("families", json!(FAMILIES));
    ctx.set_extra("post_variants", json!("opcode in {kept, 2, 5, 15} x {no junk, 1 appended zero octet}"));
    ctx.set_extra("servers", json!(["keys (TSIG key table of fixtures)", "nokeys", "keys-limited (rate 1, window 1, slip 1; second of two identical UDP requests)"]));
    ctx.assume("the request templates of qvlib::templates are well formed (cross-checked: the identity family must scan as problem-free or as the TSIG/EDNS error the template was built for)");
    ctx.assume("qvlib::wire decoder and qvlib::reftsig HMAC (self-tested against RFC vectors at start-up) are correct");
    ctx.finish(
        "exploration",
        "every template x every member of 10 mutation families (truncation at every length, 7 appended suffixes, all count vectors within +-1 and forced values, every single-bit flip, every octet set to 9 significant values (quick) / all 256 values (thorough), OPT/TSIG/ordinary record inserted at every slot and section, own OPT/TSIG moved to every slot, TSIG class/TTL values, question dropped) x 4 opcodes x {no junk, junk} x 2 servers x 2 transports, plus every request sent twice over UDP to a server limited to one response per second and stream (slip 1), the second response judged like any other; oracle = independent in-order request scanner (first problem wins)",
        true,
    )
}
