//! C07 — zone selection and RCODEs for unsupported queries.
//!
//! Space: every catalog with at most 2 (quick) / 3 (thorough) entries over
//! the 15 keys {., t., a.t., b.a.t., u.} x {IN, CH, CLASS65280}, each entry
//! Loaded / NotYetLoaded / FailedToLoad, as a `HashMapTreeCatalog` (and every
//! single-entry catalog also as a `SingleZoneCatalog`), crossed with a fixed
//! request list: opcode QUERY x 14 QNAMEs x 9 QTYPEs x 6 QCLASSes x 5
//! decorations, and the 15 other opcodes x 25 shapes x 3 decorations.
//! Oracle: the RCODE table of the statement over a longest-suffix catalog
//! model; for a Loaded entry the answer must come from that entry's
//! (three-record, individually marked) zone.

use std::sync::Arc;

use qvlib::fixtures::{self, ServerCfg};
use qvlib::qd::{self, Cat, Rec, Tp};
use qvlib::templates::{KEY1_NAME, KEY1_SECRET, TSIG_TIME};
use qvlib::wire::{self, c, rc, t, MsgBuilder, PtrRule};
use qvlib::{hex, json, panic_key, reftsig, unhex, Ctx, Local, Value};
use quandary::class::Class;
use quandary::db::catalog::Entry;
use quandary::db::zone::GluePolicy;
use quandary::db::{Catalog, HashMapTreeZone, SingleZoneCatalog};
use quandary::server::Server;

use crate::model::{self, RefEntry, ScanCfg, Status, Stop};

const CAT_NAMES: &[&str] = &[".", "t.", "a.t.", "b.a.t.", "u."];
const CAT_CLASSES: &[u16] = &[1, 3, 65280];

/// The last five are label-boundary confusers: they end, octet for octet,
/// with a catalog name's wire form although they are not below it (`x\001t.`
/// is the single label 'x' 01 't').
const QNAMES: &[&str] = &[
    ".", "t.", "T.", "a.t.", "A.T.", "b.a.t.", "x.a.t.", "x.B.a.t.", "c.t.", "at.", "u.", "U.", "x.u.", "v.", "x\\001t.", "w.x\\001T.", "x\\001a.t.", "y\\001a\\001t.", "x\\001b.a.t.",
];
const QTYPES: &[u16] = &[t::A, t::SOA, t::TXT, t::TSIG, t::IXFR, t::AXFR, t::MAILB, t::MAILA, t::ANY];
const QCLASSES: &[u16] = &[c::IN, c::CH, c::HS, c::NONE, c::ANY, 65280];

fn key_id(name: &[u8], class: u16) -> Option<usize> {
    let ni = CAT_NAMES.iter().position(|n| wire::wname(n) == wire::lower(name))?;
    let ci = CAT_CLASSES.iter().position(|x| *x == class)?;
    Some(ni * CAT_CLASSES.len() + ci)
}

// -------------------------------------------------- the marked zones

const SOA_TTL: u32 = 300;
const SOA_MINIMUM: u32 = 60;

fn zone_recs(apex: &[u8], class: u16, id: usize) -> Vec<Rec> {
    vec![
        Rec::new(apex, t::SOA, class, SOA_TTL, &fixtures::soa_rdata("ns.invalid.", "h.invalid.", 1000 + id as u32, 1, 1, 1, SOA_MINIMUM)),
        Rec::new(apex, t::NS, class, 300, &wire::wname("ns.invalid.")),
        Rec::new(apex, t::TXT, class, 300, &fixtures::txt_rdata(&[format!("z{id}").as_bytes()])),
    ]
}

struct Zones {
    zones: Vec<Arc<HashMapTreeZone>>,
}

impl Zones {
    fn new() -> Zones {
        let mut zones = Vec::new();
        for n in CAT_NAMES {
            for &cl in CAT_CLASSES {
                let apex = wire::wname(n);
                let id = key_id(&apex, cl).unwrap();
                zones.push(Arc::new(qd::build_zone(&apex, cl, GluePolicy::Narrow, &zone_recs(&apex, cl, id)).expect("marked zone")));
            }
        }
        Zones { zones }
    }
    fn entry(&self, e: &RefEntry) -> Entry<HashMapTreeZone, ()> {
        match e.status {
            Status::Loaded => Entry::Loaded(self.zones[key_id(&e.name, e.class).expect("catalog key")].clone(), ()),
            Status::NotYetLoaded => Entry::NotYetLoaded(qd::qname(&e.name), Class::from(e.class), ()),
            Status::FailedToLoad => Entry::FailedToLoad(qd::qname(&e.name), Class::from(e.class), ()),
        }
    }
}

// -------------------------------------------------------- requests

#[derive(Clone, Debug)]
struct Req {
    bytes: Vec<u8>,
    tp: Tp,
    opcode: u8,
    /// None: no question (only with opcodes other than QUERY).
    question: Option<(Vec<u8>, u16, u16)>,
    decor: &'static str,
}

fn decorate(opcode: u8, question: Option<(&[u8], u16, u16)>, answer_rr: bool, decor: &'static str) -> Req {
    let mut b = MsgBuilder::new(0x0707, (opcode as u16) << 11);
    if let Some((n, ty, cl)) = question {
        b = b.question(n, ty, cl);
    }
    if answer_rr {
        b = b.rr(1, &wire::wname("t."), t::SOA, c::IN, 1, &fixtures::soa_rdata("ns.t.", "h.t.", 1, 1, 1, 1, 1));
    }
    let (tp, opt, tsig, extra) = match decor {
        "plain/udp" => (Tp::Udp, false, false, false),
        "plain/tcp" => (Tp::Tcp, false, false, false),
        "opt/udp" => (Tp::Udp, true, false, false),
        "opt+tsig/tcp" => (Tp::Tcp, true, true, false),
        "extra-records+opt/udp" => (Tp::Udp, true, false, true),
        _ => unreachable!(),
    };
    if extra {
        b = b.rr(1, &wire::wname("x.t."), t::A, c::IN, 1, &[192, 0, 2, 1]);
        b = b.rr(2, &wire::wname("t."), t::NS, c::IN, 1, &wire::wname("ns.x."));
        b = b.rr(3, &wire::wname("ns.x."), t::A, c::IN, 1, &[192, 0, 2, 2]);
    }
    if opt {
        b = b.opt(1232, 0, 0, 0, &[]);
    }
    let mut bytes = b.build();
    if tsig {
        bytes = reftsig::sign_request(&bytes, &wire::wname(KEY1_NAME), reftsig::Alg::Sha256, &reftsig::Alg::Sha256.wire_name(), KEY1_SECRET, TSIG_TIME, 300, None).0;
    }
    Req { bytes, tp, opcode, question: question.map(|(n, ty, cl)| (n.to_vec(), ty, cl)), decor }
}

fn requests() -> Vec<Req> {
    let mut out = Vec::new();
    for qn in QNAMES {
        let n = wire::wname(qn);
        for &ty in QTYPES {
            for &cl in QCLASSES {
                for d in ["plain/udp", "plain/tcp", "opt/udp", "opt+tsig/tcp", "extra-records+opt/udp"] {
                    out.push(decorate(0, Some((&n, ty, cl)), false, d));
                }
            }
        }
    }
    for opcode in 1..16u8 {
        for d in ["plain/udp", "opt/udp", "opt+tsig/tcp"] {
            out.push(decorate(opcode, None, false, d));
            for qn in ["t.", "x.a.t.", "v."] {
                let n = wire::wname(qn);
                for ty in [t::A, t::AXFR] {
                    for cl in [c::IN, c::ANY] {
                        for answer_rr in [false, true] {
                            out.push(decorate(opcode, Some((&n, ty, cl)), answer_rr, d));
                        }
                    }
                }
            }
        }
    }
    out
}

/// For replay: recover the request's parameters from its octets.
fn req_from_bytes(bytes: &[u8], tp: Tp) -> Option<Req> {
    let m = wire::decode_message(bytes, PtrRule::BeforeChunkStart, false).ok()?;
    let question = m.questions.first().map(|q| (q.qname.clone(), q.qtype, q.qclass));
    if m.header.opcode == 0 && question.is_none() {
        return None; // not a member of the C07 family (that is C08's FORMERR case)
    }
    Some(Req { bytes: bytes.to_vec(), tp, opcode: m.header.opcode, question, decor: "replay" })
}

// ---------------------------------------------------------- oracle

enum Exp<'a> {
    NotImp(&'static str),
    Refused(&'static str),
    ServFail(&'static str),
    Answer(&'a RefEntry),
}

fn expect<'a>(cat: &'a [RefEntry], r: &Req) -> Exp<'a> {
    if r.opcode != 0 {
        return Exp::NotImp("opcode");
    }
    let (qname, qtype, qclass) = r.question.as_ref().expect("QUERY requests of this family have a question");
    // QTYPE and QCLASS are checked together: both give NOTIMP.
    if qclass == &c::ANY && matches!(*qtype, t::IXFR | t::AXFR | t::MAILB | t::MAILA) {
        return Exp::NotImp("qtype+qclass-any");
    }
    if matches!(*qtype, t::IXFR | t::AXFR | t::MAILB | t::MAILA) {
        return Exp::NotImp("qtype");
    }
    if *qclass == c::ANY {
        return Exp::NotImp("qclass-any");
    }
    match model::ref_lookup(cat, qname, *qclass) {
        None => {
            if cat.iter().any(|e| wire::eq_or_subdomain(qname, &e.name)) {
                Exp::Refused("suffix-entry-only-in-other-class")
            } else if cat.iter().any(|e| e.class == *qclass) {
                Exp::Refused("class-has-entries-but-no-suffix")
            } else {
                Exp::Refused("nothing-for-class")
            }
        }
        Some(e) => match e.status {
            Status::NotYetLoaded => Exp::ServFail("notyetloaded"),
            Status::FailedToLoad => Exp::ServFail("failedtoload"),
            Status::Loaded => Exp::Answer(e),
        },
    }
}

type Canon = (Vec<u8>, u16, u16, u32, Vec<u8>);

/// What the marked zone of `e` answers: (rcode, answer section, authority
/// section), from RFC 1034 §4.3.2 / RFC 2308 for a zone that has nothing but
/// SOA, NS and TXT at its apex.
fn zone_answer(e: &RefEntry, qname: &[u8], qtype: u16) -> (u8, Vec<Canon>, Vec<Canon>, &'static str) {
    let id = key_id(&e.name, e.class).unwrap();
    let recs = zone_recs(&e.name, e.class, id);
    let canon = |r: &Rec, ttl: u32| -> Canon { (wire::lower(&r.owner), r.typ, r.class, ttl, wire::canon_rdata(r.class, r.typ, &r.rdata)) };
    let neg_soa = vec![canon(&recs[0], SOA_TTL.min(SOA_MINIMUM))];
    if !wire::eq_ci(qname, &e.name) {
        return (rc::NXDOMAIN, vec![], neg_soa, "nxdomain");
    }
    let an: Vec<Canon> = recs.iter().filter(|r| qtype == t::ANY || r.typ == qtype).map(|r| canon(r, r.ttl)).collect();
    if an.is_empty() {
        (rc::NOERROR, vec![], neg_soa, "nodata")
    } else {
        (rc::NOERROR, wire::sorted(an), vec![], "data")
    }
}

/// Relation of the selected entry to the other entries of the catalog, for
/// the outcome classes (shows that shadowing cases are exercised).
fn shadow_text(cat: &[RefEntry], sel: &RefEntry, qname: &[u8]) -> &'static str {
    let same_class_shorter = cat.iter().any(|e| e != sel && e.class == sel.class && wire::eq_or_subdomain(qname, &e.name));
    let other_class_longer = cat.iter().any(|e| e.class != sel.class && wire::eq_or_subdomain(qname, &e.name) && wire::labels(&e.name).len() > wire::labels(&sel.name).len());
    match (same_class_shorter, other_class_longer) {
        (true, true) => "deepest-of-several+longer-in-other-class",
        (true, false) => "deepest-of-several",
        (false, true) => "only-suffix+longer-in-other-class",
        (false, false) => "only-suffix",
    }
}

fn evaluate<C: Catalog>(server: &Server<C>, cat: &[RefEntry], r: &Req) -> (String, Option<(String, Value)>) {
    quandary::server::verif_hooks::set_tsig_unix_time(Some(TSIG_TIME));
    let exp = expect(cat, r);
    let exp_text = match &exp {
        Exp::NotImp(w) => format!("NOTIMP({w})"),
        Exp::Refused(w) => format!("REFUSED({w})"),
        Exp::ServFail(w) => format!("SERVFAIL({w})"),
        Exp::Answer(e) => format!("answer-from({} class {}; {})", wire::name_text(&e.name), e.class, shadow_text(cat, e, &r.question.as_ref().unwrap().0)),
    };
    let resp = match qd::handle(server, &r.bytes, qd::localhost(), r.tp) {
        Ok(Some(x)) => x,
        Ok(None) => return (format!("{exp_text} -> no-response"), Some(("no-response".into(), json!({"expected": exp_text})))),
        Err(p) => return (format!("{exp_text} -> panic"), Some((panic_key(&p), json!({"panic": p})))),
    };
    let o = match model::observe(&resp) {
        Ok(o) => o,
        Err(e) => return (format!("{exp_text} -> undecodable"), Some(("undecodable-response".into(), json!({"response": hex(&resp), "decode_error": e})))),
    };
    let fail = |key: String, what: &str| -> (String, Option<(String, Value)>) {
        (
            format!("{exp_text} -> VIOLATION"),
            Some((
                key,
                json!({"expected": exp_text, "problem": what,
                       "observed": {"rcode": o.ext, "aa": o.aa, "an": o.an, "ns": o.ns, "additional_data": o.ar_data, "opt": o.n_opt, "tsig": o.n_tsig},
                       "response": hex(&resp)}),
            )),
        )
    };
    let error_rcode = |code: u8, name: &str| -> Option<(String, &'static str)> {
        if o.ext != code as u16 {
            Some((format!("{name}-expected:got-rcode-{}", o.ext), "wrong RCODE"))
        } else if o.aa {
            Some((format!("{name}-with-AA"), "AA set on an error response"))
        } else if o.an != 0 || o.ns != 0 || o.ar_data != 0 {
            Some((format!("{name}-with-records"), "records besides OPT/TSIG on an error response"))
        } else {
            None
        }
    };
    match &exp {
        Exp::NotImp(_) => {
            if let Some((k, w)) = error_rcode(rc::NOTIMP, "NOTIMP") {
                return fail(k, w);
            }
        }
        Exp::Refused(_) => {
            if let Some((k, w)) = error_rcode(rc::REFUSED, "REFUSED") {
                return fail(k, w);
            }
        }
        Exp::ServFail(_) => {
            if let Some((k, w)) = error_rcode(rc::SERVFAIL, "SERVFAIL") {
                return fail(k, w);
            }
        }
        Exp::Answer(e) => {
            let (qname, qtype, _) = r.question.as_ref().unwrap();
            let (rcode, an, ns, kind) = zone_answer(e, qname, *qtype);
            let got_an = wire::sorted(o.msg.answers.iter().map(wire::canon_rr).collect::<Vec<_>>());
            let got_ns = wire::sorted(o.msg.authority.iter().map(wire::canon_rr).collect::<Vec<_>>());
            if o.ext != rcode as u16 {
                return fail(format!("answer:{kind}:rcode-{}", o.ext), "wrong RCODE for an answer from the selected zone");
            }
            if !o.aa {
                return fail(format!("answer:{kind}:AA-clear"), "AA clear on an authoritative answer");
            }
            if got_an != an || got_ns != ns {
                return fail(format!("answer:{kind}:records-not-from-selected-zone"), "answer/authority records are not those of the selected entry's zone");
            }
            return (format!("{exp_text} {kind} -> rcode={}", o.ext), None);
        }
    }
    (format!("{exp_text} [{}] -> opt={},tsig={}", if r.opcode == 0 { "QUERY" } else { "other-opcode" }, o.n_opt, o.n_tsig), None)
}

// -------------------------------------------------------- catalogs

fn catalogs(max_entries: usize) -> Vec<Vec<RefEntry>> {
    let mut keys = Vec::new();
    for n in CAT_NAMES {
        for &cl in CAT_CLASSES {
            keys.push((wire::wname(n), cl));
        }
    }
    let sts = [Status::Loaded, Status::NotYetLoaded, Status::FailedToLoad];
    let mut out: Vec<Vec<RefEntry>> = vec![vec![]];
    for idx in qvlib::enumerate::subsets_upto(keys.len(), max_entries) {
        if idx.is_empty() {
            continue;
        }
        let n = idx.len();
        for code in 0..3usize.pow(n as u32) {
            let mut c = code;
            let mut cat = Vec::new();
            for &k in &idx {
                cat.push(RefEntry { name: keys[k].0.clone(), class: keys[k].1, status: sts[c % 3] });
                c /= 3;
            }
            out.push(cat);
        }
    }
    out
}

fn cat_json(cat: &[RefEntry]) -> Value {
    json!(cat.iter().map(|e| json!({"name": wire::name_text(&e.name), "class": e.class, "status": e.status.name()})).collect::<Vec<_>>())
}

fn make_tree(z: &Zones, cat: &[RefEntry]) -> Server<Cat> {
    let mut c = Cat::new();
    for e in cat {
        c.insert(z.entry(e));
    }
    fixtures::make_server(c, ServerCfg { name: "c07", edns_size: 1232, tsig: true, rrl: None })
}

/// The same catalog reached through a different history: one more entry
/// (`extra`, not a key of `cat`) is inserted - before or after the others -
/// and removed again. The server must behave exactly as over `make_tree`.
fn make_tree_via_removal(z: &Zones, cat: &[RefEntry], extra: &RefEntry, extra_first: bool) -> Server<Cat> {
    let mut c = Cat::new();
    if extra_first {
        c.insert(z.entry(extra));
    }
    for e in cat {
        c.insert(z.entry(e));
    }
    if !extra_first {
        c.insert(z.entry(extra));
    }
    c.remove(&qd::qname(&extra.name), Class::from(extra.class));
    fixtures::make_server(c, ServerCfg { name: "c07", edns_size: 1232, tsig: true, rrl: None })
}

fn all_keys() -> Vec<(Vec<u8>, u16)> {
    let mut keys = Vec::new();
    for n in CAT_NAMES {
        for &cl in CAT_CLASSES {
            keys.push((wire::wname(n), cl));
        }
    }
    keys
}

fn make_single(z: &Zones, e: &RefEntry) -> Server<SingleZoneCatalog<HashMapTreeZone, ()>> {
    fixtures::make_server(SingleZoneCatalog::new(z.entry(e)), ServerCfg { name: "c07", edns_size: 1232, tsig: true, rrl: None })
}

pub fn run(ctx: Ctx) -> ! {
    let zones = Zones::new();
    if let Some(case) = ctx.replay_case() {
        let cat: Vec<RefEntry> = case["catalog"]
            .as_array()
            .map(|a| {
                a.iter()
                    .map(|e| RefEntry {
                        name: wire::wname(e["name"].as_str().unwrap_or(".")),
                        class: e["class"].as_u64().unwrap_or(1) as u16,
                        status: Status::from_name(e["status"].as_str().unwrap_or("")),
                    })
                    .collect()
            })
            .unwrap_or_default();
        let tp = Tp::from_name(case["tp"].as_str().unwrap_or("udp"));
        let bytes = unhex(case["request"].as_str().unwrap_or(""));
        let Some(r) = req_from_bytes(&bytes, tp) else {
            eprintln!("replay: request is not a well-formed message");
            std::process::exit(2);
        };
        let single = case["catalog_kind"].as_str() == Some("single") && cat.len() == 1;
        let via = case["catalog_kind"].as_str() == Some("tree-via-removal");
        let (class, v) = if single {
            evaluate(&make_single(&zones, &cat[0]), &cat, &r)
        } else if via {
            let extra = RefEntry { name: wire::wname(case["removed_entry"]["name"].as_str().unwrap_or(".")), class: case["removed_entry"]["class"].as_u64().unwrap_or(1) as u16, status: Status::NotYetLoaded };
            evaluate(&make_tree_via_removal(&zones, &cat, &extra, case["removed_entry"]["inserted_first"].as_bool().unwrap_or(false)), &cat, &r)
        } else {
            evaluate(&make_tree(&zones, &cat), &cat, &r)
        };
        eprintln!("replay: {class}");
        let mut l = ctx.local();
        l.tick();
        l.outcome(&class, || case.clone());
        if let Some((key, detail)) = v {
            eprintln!("replay: VIOLATED {key}: {detail}");
            l.violation(&key, json!({"catalog": cat_json(&cat), "catalog_kind": case["catalog_kind"].clone(), "removed_entry": case["removed_entry"].clone(), "request": hex(&bytes), "tp": tp.name(), "detail": detail}));
        } else {
            eprintln!("replay: holds");
        }
        drop(l);
        ctx.finish("exploration", "replay of one case", false);
    }

    let reqs = requests();
    // Machinery cross-check: every request of this family is well formed in
    // the eyes of the C08 scanner (so FORMERR is never the right answer).
    {
        let keys = model::fixture_keys();
        let cfg = ScanCfg { keys: &keys, now: TSIG_TIME };
        for r in &reqs {
            let sc = model::scan_all(&r.bytes, &cfg);
            if sc.len() != 1 || sc[0].stop != Stop::Completed {
                eprintln!("MACHINERY: C07 request is not problem-free: {} ({})", hex(&r.bytes), sc[0].why);
                std::process::exit(2);
            }
        }
    }
    let cats = catalogs(ctx.pick(3, 4));
    // (catalog index, as SingleZoneCatalog?)
    let mut items: Vec<(usize, bool)> = (0..cats.len()).map(|i| (i, false)).collect();
    for (i, cat) in cats.iter().enumerate() {
        if cat.len() == 1 {
            items.push((i, true));
        }
    }
    let rot = (ctx.seed as usize) % items.len();
    items.rotate_left(rot);

    ctx.par_for_each(&items, |l: &mut Local, &(ci, single)| {
        let cat = &cats[ci];
        let tree;
        let one;
        let run_req: &dyn Fn(&Req) -> (String, Option<(String, Value)>) = if single {
            one = make_single(&zones, &cat[0]);
            &|r| evaluate(&one, cat, r)
        } else {
            tree = make_tree(&zones, cat);
            &|r| evaluate(&tree, cat, r)
        };
        for r in &reqs {
            l.tick();
            let (class, v) = run_req(r);
            let full = || {
                json!({
                    "catalog": cat_json(cat), "catalog_kind": if single { "single" } else { "tree" },
                    "request": hex(&r.bytes), "tp": r.tp.name(), "decoration": r.decor, "opcode": r.opcode,
                    "question": r.question.as_ref().map(|(n, ty, cl)| json!({"qname": wire::name_text(n), "qtype": ty, "qclass": cl})),
                })
            };
            l.outcome(&class, full);
            if let Some((key, detail)) = v {
                let mut cse = full();
                cse["detail"] = detail;
                l.violation(&key, cse);
            }
        }
    });
    // Non-initial states: every catalog of <= 2 entries reached through the
    // insertion and removal of one more entry (each of the other keys, inserted
    // first or last), queried with the undecorated UDP requests.
    let keys = all_keys();
    let plain: Vec<&Req> = reqs.iter().filter(|r| r.decor == "plain/udp").collect();
    let mut via: Vec<(usize, usize, bool)> = Vec::new();
    for (ci, cat) in cats.iter().enumerate() {
        if cat.len() > 2 {
            continue;
        }
        for (ki, (n, cl)) in keys.iter().enumerate() {
            if cat.iter().any(|e| e.name == *n && e.class == *cl) {
                continue;
            }
            via.push((ci, ki, false));
            via.push((ci, ki, true));
        }
    }
    ctx.par_for_each(&via, |l: &mut Local, &(ci, ki, first)| {
        let cat = &cats[ci];
        let extra = RefEntry { name: keys[ki].0.clone(), class: keys[ki].1, status: Status::NotYetLoaded };
        let server = make_tree_via_removal(&zones, cat, &extra, first);
        for r in &plain {
            l.tick();
            let (class, v) = evaluate(&server, cat, r);
            let full = || {
                json!({
                    "catalog": cat_json(cat), "catalog_kind": "tree-via-removal",
                    "removed_entry": {"name": wire::name_text(&extra.name), "class": extra.class, "inserted_first": first},
                    "request": hex(&r.bytes), "tp": r.tp.name(), "decoration": r.decor, "opcode": r.opcode,
                    "question": r.question.as_ref().map(|(n, ty, cl)| json!({"qname": wire::name_text(n), "qtype": ty, "qclass": cl})),
                })
            };
            l.outcome(&format!("via-removal: {class}"), full);
            if let Some((key, detail)) = v {
                let mut cse = full();
                cse["detail"] = detail;
                l.violation(&key, cse);
            }
        }
    });
    ctx.set_extra("catalogs_via_removal", json!(via.len()));
    ctx.set_extra("catalogs_tree", json!(cats.len()));
    ctx.set_extra("catalogs_single_zone", json!(items.len() - cats.len()));
    ctx.set_extra("max_entries_per_catalog", json!(ctx.pick(3, 4)));
    ctx.set_extra("requests_per_catalog", json!(reqs.len()));
    ctx.assume("qvlib::wire decoder is correct; TSIG-decorated requests are signed by qvlib::reftsig (self-tested against RFC vectors)");
    ctx.finish(
        "exploration",
        "every catalog of <= 2 (quick) / <= 3 (thorough) entries over 5 nested names x 3 classes x {Loaded, NotYetLoaded, FailedToLoad} (tree catalog built by insertion; singletons also as SingleZoneCatalog; catalogs of <= 2 entries also reached by inserting - first or last - and removing each other key) x {QUERY x 14 QNAMEs x 9 QTYPEs x 6 QCLASSes x 5 decorations (plain, OPT, OPT+TSIG, extra records; UDP/TCP)} + {15 other opcodes x 25 shapes x 3 decorations}; oracle = statement's RCODE table over a longest-suffix catalog model, Loaded entries answer from their own marked zone",
        true,
    )
}
