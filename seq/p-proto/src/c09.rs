//! C09 — EDNS(0) requests get correct OPT handling.
//!
//! Space: a query for `a.t. A IN` followed by every layout of at most three
//! records (section x kind, sections in message order) drawn from {ordinary
//! record, the varied OPT, a second fixed OPT, an undelimitable record, a TSIG
//! with an unknown key}; the varied OPT runs through the full product of
//! owner x CLASS (payload size) x extended-RCODE octet x version octet x flag
//! word x RDATA; x server payload size x transport. Layouts without the
//! varied OPT are evaluated once per server and transport. Second family: a
//! valid OPT whose advertised size takes every value 0..=2100 (+ 7 larger
//! ones) on queries with 2-3 KB answers (zone `big9.`), so that truncation
//! happens at every fill level relative to the space reserved for the OPT.
//! Oracle: `model::scan_all` ("processing reached") + the C09 statement.

use qvlib::fixtures::{self, ServerCfg};
use qvlib::qd::{self, Cat, Tp};
use qvlib::templates::TSIG_TIME;
use qvlib::wire::{self, c, t, MsgBuilder};
use qvlib::{hex, json, panic_key, reftsig, unhex, Ctx, Local, Value};
use quandary::server::Server;

use crate::model::{self, ScanCfg, Stop};

#[derive(Clone, Copy, Debug, PartialEq, Eq)]
enum Kind {
    Ord,
    OptA,
    OptB,
    Undelim,
    Tsig,
}

impl Kind {
    fn name(self) -> &'static str {
        match self {
            Kind::Ord => "ord",
            Kind::OptA => "OPT*",
            Kind::OptB => "OPT2",
            Kind::Undelim => "undelimitable",
            Kind::Tsig => "tsig",
        }
    }
}

const KINDS: &[Kind] = &[Kind::Ord, Kind::OptA, Kind::OptB, Kind::Undelim, Kind::Tsig];

type Layout = Vec<(u8, Kind)>;

fn layout_text(l: &Layout) -> String {
    if l.is_empty() {
        return "(no records)".into();
    }
    l.iter().map(|(s, k)| format!("{}:{}", ["", "AN", "NS", "AR"][*s as usize], k.name())).collect::<Vec<_>>().join(",")
}

/// Every sequence of at most 3 (section, kind) pairs with non-decreasing
/// sections and at most one each of OPT*, OPT2, undelimitable, tsig.
fn layouts() -> Vec<Layout> {
    let mut out: Vec<Layout> = vec![vec![]];
    let mut frontier: Vec<Layout> = vec![vec![]];
    for _ in 0..3 {
        let mut next = Vec::new();
        for l in &frontier {
            let lo = l.last().map(|x| x.0).unwrap_or(1);
            for sec in lo..=3u8 {
                for &k in KINDS {
                    if k != Kind::Ord && l.iter().any(|x| x.1 == k) {
                        continue;
                    }
                    let mut n = l.clone();
                    n.push((sec, k));
                    next.push(n);
                }
            }
        }
        out.extend(next.iter().cloned());
        frontier = next;
    }
    out
}

#[derive(Clone, Copy, Debug)]
struct OptParams {
    owner: usize,
    class: u16,
    ext: u8,
    version: u8,
    flags: u16,
    rdata: usize,
}

/// Offsets inside the fixed question `a.t. A IN` that starts at 12.
const QNAME_OFF: usize = 12;
const QNAME_ROOT_LABEL_OFF: usize = 16;

const OWNERS: &[(&str, &[u8])] = &[
    ("root", &[0]),
    ("a.", &[1, b'a', 0]),
    ("ptr->root-label", &[0xc0, QNAME_ROOT_LABEL_OFF as u8]),
    ("ptr->qname(a.t.)", &[0xc0, QNAME_OFF as u8]),
    ("forward-pointer", &[0xc0, 0xff]),
];

const RDATAS: &[(&str, &[u8])] = &[
    ("empty", &[]),
    ("one-option", &[0, 10, 0, 8, 1, 2, 3, 4, 5, 6, 7, 8]),
    ("option-data-cut", &[0, 10, 0, 8, 1, 2]),
    ("option-header-cut", &[0, 10, 0]),
];

fn opt_variants(quick: bool) -> Vec<OptParams> {
    let classes: &[u16] = if quick { &[0, 1232, 65535] } else { &[0, 511, 512, 1232, 4096, 65535] };
    let exts: &[u8] = if quick { &[0x00, 0x80] } else { &[0x00, 0x01, 0x7f, 0x80, 0xff] };
    let versions: &[u8] = if quick { &[0x00, 0x01, 0x80] } else { &[0x00, 0x01, 0x80, 0xff] };
    let flags: &[u16] = if quick { &[0x0000, 0x8000] } else { &[0x0000, 0x8000, 0x7fff] };
    let mut v = Vec::new();
    for owner in 0..OWNERS.len() {
        for &class in classes {
            for &ext in exts {
                for &version in versions {
                    for &fl in flags {
                        for rdata in 0..RDATAS.len() {
                            v.push(OptParams { owner, class, ext, version, flags: fl, rdata });
                        }
                    }
                }
            }
        }
    }
    v
}

/// (opcode, question present): the OPT rules hold for every opcode and
/// whether or not the message carries a question.
const SHAPES: [(u8, bool); 5] = [(0, true), (2, false), (2, true), (9, false), (0, false)];

fn build(layout: &Layout, p: &OptParams, tsig_rd: &[u8], shape: (u8, bool)) -> Vec<u8> {
    let mut b = MsgBuilder::new(0x0909, 0x0100 | ((shape.0 as u16) << 11));
    if shape.1 {
        b = b.question(&wire::wname("a.t."), t::A, c::IN);
    }
    let mut undelim_rdlength_at = None;
    for &(sec, k) in layout {
        let sec = sec as usize;
        b = match k {
            Kind::Ord => b.rr(sec, &wire::wname("x."), t::A, c::IN, 1, &[192, 0, 2, 9]),
            Kind::OptA => {
                let ttl = ((p.ext as u32) << 24) | ((p.version as u32) << 16) | p.flags as u32;
                b.rr(sec, OWNERS[p.owner].1, t::OPT, p.class, ttl, RDATAS[p.rdata].1)
            }
            Kind::OptB => b.rr(sec, &[0], t::OPT, 4096, 0, &[]),
            Kind::Undelim => {
                // Root owner, A IN; its RDLENGTH is patched to 0xffff below, so
                // the record runs past the end of any request built here.
                undelim_rdlength_at = Some(b.len() + 1 + 8);
                b.rr(sec, &[0], t::A, c::IN, 0, &[])
            }
            Kind::Tsig => b.rr(sec, &wire::wname("nokey."), t::TSIG, c::ANY, 0, tsig_rd),
        };
    }
    let mut m = b.build();
    if let Some(at) = undelim_rdlength_at {
        m[at] = 0xff;
        m[at + 1] = 0xff;
    }
    m
}

struct Srv {
    size: u16,
    server: Server<Cat>,
}

/// `big9.`: RRsets whose complete answer exceeds every small payload size,
/// so that the advertised-size sweep meets truncation at every fill level
/// (records of 16, 17 and 27 octets).
fn big9_zone() -> quandary::db::HashMapTreeZone {
    let apex = wire::wname("big9.");
    let mut recs = vec![
        qd::Rec::new(&apex, t::SOA, c::IN, 300, &fixtures::soa_rdata("ns.big9.", "h.big9.", 1, 1, 1, 1, 60)),
        qd::Rec::new(&apex, t::NS, c::IN, 300, &wire::wname("ns.big9.")),
        qd::Rec::new(&wire::wname("ns.big9."), t::A, c::IN, 300, &[192, 0, 2, 1]),
    ];
    for i in 0..120u8 {
        recs.push(qd::Rec::new(&wire::wname("a.big9."), t::A, c::IN, 300, &[10, 9, 0, i]));
        recs.push(qd::Rec::new(&wire::wname("x.big9."), t::TXT, c::IN, 300, &[4, b'x', b'y', b'z', i]));
        recs.push(qd::Rec::new(&wire::wname("*.w.big9."), t::AAAA, c::IN, 300, &[0x20, 1, 0xd, 0xb8, 0, 0, 0, 0, 0, 0, 0, 0, 0, 0, 9, i]));
    }
    qd::build_zone(&apex, c::IN, quandary::db::zone::GluePolicy::Narrow, &recs).unwrap_or_else(|e| panic!("big9 zone: record {} rejected: {}", e.0, e.1))
}

const SWEEP_QUERIES: &[(&str, u16)] = &[("a.big9.", t::A), ("x.big9.", t::TXT), ("q.w.big9.", t::AAAA), ("a.big9.", t::ANY), ("a.t.", t::A)];

fn build_sweep(qname: &str, qtype: u16, advertised: u16, dnssec_ok: bool) -> Vec<u8> {
    MsgBuilder::new(0x0909, 0x0100).question(&wire::wname(qname), qtype, c::IN).rr(3, &[0], t::OPT, advertised, if dnssec_ok { 0x8000 } else { 0 }, &[]).build()
}

fn servers() -> Vec<Srv> {
    [512u16, 1232, 65535]
        .iter()
        .map(|&size| Srv { size, server: fixtures::make_server(qd::catalog_of(vec![fixtures::std_zone(), big9_zone()]), ServerCfg { name: "c09", edns_size: size, tsig: false, rrl: None }) })
        .collect()
}

fn evaluate(srv: &Srv, req: &[u8], tp: Tp) -> (String, Option<(String, Value)>) {
    quandary::server::verif_hooks::set_tsig_unix_time(Some(TSIG_TIME));
    let resp = qd::handle(&srv.server, req, qd::localhost(), tp);
    judge(srv.size, req, resp, false)
}

/// The same request sent twice over UDP to a server whose rate limiter allows
/// one response per stream and second (slip 1, clock frozen): the second
/// response is the slipped (truncated) form, and the statement holds for it
/// as for any response - one OPT exactly when an OPT was reached, BADVERS for
/// a version other than 0.
fn evaluate_limited(server: &mut Server<Cat>, size: u16, req: &[u8]) -> (String, Option<(String, Value)>) {
    quandary::server::verif_hooks::set_tsig_unix_time(Some(TSIG_TIME));
    quandary::server::verif_hooks::set_rrl_elapsed(Some(std::time::Duration::from_secs(5)));
    let mut p = quandary::server::RrlParams::new(1, 1, 1, 1).expect("rrl params");
    p.set_slip(1);
    p.set_size(7).expect("rrl size");
    server.set_rrl_params(Some(p));
    let first = qd::handle(server, req, qd::localhost(), Tp::Udp);
    let (c1, v1) = judge(size, req, first, false);
    if v1.is_some() {
        return (format!("first:{c1}"), v1);
    }
    let second = qd::handle(server, req, qd::localhost(), Tp::Udp);
    let (c2, v2) = judge(size, req, second, true);
    (format!("limited:{c2}"), v2)
}

fn judge(size: u16, req: &[u8], resp: Result<Option<Vec<u8>>, String>, limited: bool) -> (String, Option<(String, Value)>) {
    let cfg = ScanCfg { keys: &[], now: TSIG_TIME };
    let scans = model::scan_all(req, &cfg);
    let first = &scans[0];
    let tag = format!("{}{}", first.why, if first.opt_reached { "[opt reached]" } else { "" });
    let resp = match resp {
        Ok(r) => r,
        Err(p) => return (format!("{tag} -> panic"), Some((panic_key(&p), json!({"panic": p})))),
    };
    if first.stop == Stop::NoResponse {
        return (format!("no-demand:{tag}"), None);
    }
    let Some(resp) = resp else {
        if limited {
            // a limited response may be dropped (it is not with slip 1, which
            // is C26's subject)
            return (format!("{tag} -> dropped"), None);
        }
        return (format!("{tag} -> no-response"), Some(("no-response".into(), json!({}))));
    };
    let obs = match model::observe(&resp) {
        Ok(o) => o,
        Err(e) => return (format!("{tag} -> undecodable"), Some(("undecodable-response".into(), json!({"response": hex(&resp), "decode_error": e})))),
    };
    let class = format!("{tag} -> {}", obs.class());
    let mut err: Option<String> = None;
    for sc in &scans {
        // The RCODE is C09's business only for the OPT's own problems
        // (version, owner); the rest of the FORMERR rules belong to C08.
        let r1 = if sc.why.starts_with("opt:") { model::judge_rcode(sc, &obs) } else { Ok(()) };
        let r2 = model::judge_opt(sc, &obs, size);
        match (r1, r2) {
            (Ok(()), Ok(())) => return (class, None),
            (Err(e), _) => err = err.or(Some(format!("{}:{e}", sc.why))),
            (_, Err(e)) => err = err.or(Some(format!("{}:{e}", if sc.opt_reached { "opt-reached" } else { "opt-not-reached" }))),
        }
    }
    let detail = json!({
        "expected": scans.iter().map(|sc| json!({
            "stop": sc.why,
            "rcode_allowed": match &sc.stop { Stop::Problem { allowed } => model::allowed_text(*allowed), _ => "-".into() },
            "opt_in_response": sc.opt_reached,
        })).collect::<Vec<_>>(),
        "observed": {"rcode": obs.ext, "an": obs.an, "ns": obs.ns, "n_opt": obs.n_opt, "n_opt_additional": obs.n_opt_additional,
                     "opt": obs.opt.as_ref().map(|(o, cl, ttl, rdl)| json!({"owner": wire::name_text(o), "class": cl, "ttl_field": format!("{ttl:#010x}"), "rdlength": rdl}))},
        "response": hex(&resp),
        "rate_limited_second_response": limited,
    });
    (class, Some((err.unwrap(), detail)))
}

fn limited_server(catalog: &std::sync::Arc<Cat>, size: u16) -> Server<Cat> {
    let mut s = Server::new(catalog.clone());
    s.set_edns_udp_payload_size(size).expect("edns size");
    s
}

pub fn run(ctx: Ctx) -> ! {
    let srvs = servers();
    let catalog = std::sync::Arc::new(qd::catalog_of(vec![fixtures::std_zone(), big9_zone()]));
    if let Some(case) = ctx.replay_case() {
        let req = unhex(case["request"].as_str().unwrap_or(""));
        let size = case["server_size"].as_u64().unwrap_or(1232) as u16;
        let srv = srvs.iter().find(|s| s.size == size).unwrap_or(&srvs[1]);
        let tp = Tp::from_name(case["tp"].as_str().unwrap_or("udp"));
        let (class, v) = if case["rate_limited"].as_bool() == Some(true) {
            let mut s2 = limited_server(&catalog, size);
            evaluate_limited(&mut s2, size, &req)
        } else {
            evaluate(srv, &req, tp)
        };
        eprintln!("replay: {class}");
        let mut l = ctx.local();
        l.tick();
        l.outcome(&class, || case.clone());
        if let Some((key, detail)) = v {
            eprintln!("replay: VIOLATED {key}: {detail}");
            l.violation(&key, json!({"request": hex(&req), "server_size": srv.size, "tp": tp.name(), "detail": detail}));
        } else {
            eprintln!("replay: holds");
        }
        drop(l);
        ctx.finish("exploration", "replay of one case", false);
    }

    let tsig_rd = reftsig::tsig_rdata(&reftsig::Alg::Sha256.wire_name(), TSIG_TIME, 300, &[0x5a; 32], 0x0909, 0, &[]);
    let mut lays = layouts();
    let variants = opt_variants(ctx.quick());
    let fixed = [OptParams { owner: 0, class: 1232, ext: 0, version: 0, flags: 0, rdata: 0 }];
    // Layouts with the varied OPT are the expensive ones: spread them.
    lays.sort_by_key(|l| !l.iter().any(|x| x.1 == Kind::OptA));
    let rot = (ctx.seed as usize) % lays.len();
    lays.rotate_left(rot);
    let n_with = lays.iter().filter(|l| l.iter().any(|x| x.1 == Kind::OptA)).count();

    ctx.par_for_each(&lays, |l: &mut Local, lay| {
        let has_a = lay.iter().any(|x| x.1 == Kind::OptA);
        let vs: &[OptParams] = if has_a { &variants } else { &fixed };
        let mut limited = limited_server(&catalog, 1232);
        for (p, shape) in vs.iter().flat_map(|p| SHAPES.iter().map(move |s| (p, *s))) {
            let req = build(lay, p, &tsig_rd, shape);
            {
                l.tick();
                let (class, v) = evaluate_limited(&mut limited, 1232, &req);
                let full = || {
                    json!({
                        "request": hex(&req), "server_size": 1232, "tp": "udp", "rate_limited": true,
                        "layout": layout_text(lay),
                        "opt": if has_a { json!({"owner": OWNERS[p.owner].0, "class": p.class, "ext_rcode_octet": p.ext, "version": p.version, "flags": p.flags, "rdata": RDATAS[p.rdata].0}) } else { Value::Null },
                    })
                };
                l.outcome(&class, full);
                if let Some((key, detail)) = v {
                    let mut cse = full();
                    cse["detail"] = detail;
                    l.violation(&key, cse);
                }
            }
            for srv in &srvs {
                for tp in [Tp::Udp, Tp::Tcp] {
                    l.tick();
                    let (class, v) = evaluate(srv, &req, tp);
                    let full = || {
                        json!({
                            "request": hex(&req), "server_size": srv.size, "tp": tp.name(),
                            "layout": layout_text(lay),
                            "opt": if has_a { json!({"owner": OWNERS[p.owner].0, "class": p.class, "ext_rcode_octet": p.ext, "version": p.version, "flags": p.flags, "rdata": RDATAS[p.rdata].0}) } else { Value::Null },
                        })
                    };
                    l.outcome(&class, full);
                    if let Some((key, detail)) = v {
                        let mut cse = full();
                        cse["detail"] = detail;
                        l.violation(&key, cse);
                    }
                }
            }
        }
    });
    // Advertised-size sweep: valid OPT (root owner, version 0) whose CLASS
    // takes every value 0..=2100 plus a few large ones, on queries whose
    // complete answers are 2-3 KB: the response is truncated at every fill
    // level relative to the space reserved for the OPT.
    let mut sizes: Vec<u16> = (0..=2100u16).collect();
    sizes.extend([4095, 4096, 16383, 16384, 32768, 65534, 65535]);
    let chunks: Vec<&[u16]> = sizes.chunks(64).collect();
    ctx.par_for_each(&chunks, |l: &mut Local, chunk| {
        for &adv in chunk.iter() {
            for (qn, qt) in SWEEP_QUERIES {
                for dnssec_ok in [false, true] {
                    let req = build_sweep(qn, *qt, adv, dnssec_ok);
                    for srv in &srvs {
                        for tp in [Tp::Udp, Tp::Tcp] {
                            l.tick();
                            let (class, v) = evaluate(srv, &req, tp);
                            let full = || json!({"request": hex(&req), "server_size": srv.size, "tp": tp.name(), "layout": "size-sweep", "qname": qn, "qtype": qt, "advertised": adv});
                            l.outcome(&format!("sweep:{class}"), full);
                            if let Some((key, detail)) = v {
                                let mut cse = full();
                                cse["detail"] = detail;
                                l.violation(&key, cse);
                            }
                        }
                    }
                }
            }
        }
    });
    ctx.set_extra("size_sweep_advertised_values", json!(sizes.len()));
    ctx.set_extra("size_sweep_queries", json!(SWEEP_QUERIES.iter().map(|(n, t)| format!("{n} type{t}")).collect::<Vec<_>>()));
    ctx.set_extra("layouts", json!(lays.len()));
    ctx.set_extra("layouts_with_varied_opt", json!(n_with));
    ctx.set_extra("opt_variants", json!(variants.len()));
    ctx.set_extra("server_payload_sizes", json!([512, 1232, 65535]));
    ctx.assume("qvlib::wire decoder is correct; the std fixture zone answers a.t. A with data (so 'no answer data' is observable)");
    ctx.finish(
        "exploration",
        "{QUERY, STATUS, opcode 9} x {question a.t. A, no question} + every layout of <= 3 records over {AN,NS,AR} x {ordinary, varied OPT, second OPT, undelimitable, TSIG(unknown key)} (sections in order, <= 1 of each pseudo record) x full product of the varied OPT's owner(5) x class x ext-rcode octet x version octet x flags x RDATA(4) x 3 server payload sizes x {UDP,TCP}, and each of these requests twice over UDP to a rate-limited server (second response slipped); plus a valid OPT whose advertised size takes every value 0..=2100 (and 7 larger ones) x 5 queries with 2-3 KB answers x DO bit x 3 server sizes x {UDP,TCP}; oracle = in-order scanner deciding whether an additional-section OPT was reached + C09 statement",
        true,
    )
}
