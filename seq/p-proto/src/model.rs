//! Shared reference model of p-proto. Nothing in this file calls quandary.
//!
//! * `scan_all`: an in-message-order scanner of a *request*, written from
//!   RFC 1035 §4.1, RFC 6891 §6.1, RFC 8945 §5 and the statements of C07-C09.
//!   It walks the request exactly once from the header to the end and stops
//!   at the first problem; the result says which RCODEs the statements allow
//!   for the response, and whether an OPT record of the additional section was
//!   reached before the stop.
//! * `observe`: what is read off a response (through qvlib's independent
//!   decoder).
//! * `judge`: compares the two for the parts common to C08 and C09.
//!
//! Positions of problems (DESIGN.md §7a): question problems at the question;
//! undelimitable record, misplaced OPT/TSIG, second OPT, TSIG not last / wrong
//! class / wrong TTL, OPT owner / version, TSIG verification: at that record;
//! "QUERY without question" and "octets remain": after the last counted
//! record.

//!
//! Oracle decisions (where the statements under-determine the behaviour; both
//! behaviours are accepted and the case is counted in its own outcome class):
//!
//! 1. OPT whose option RDATA is malformed, OPT/TSIG whose owner cannot be
//!    parsed, TSIG whose RDATA is malformed: not in C08's list, RCODE not
//!    prescribed (`ANY`); C09 still demands the OPT in the response.
//! 2. Two prescribed problems at the same OPT record: a non-root owner
//!    precedes the version (TTL field) in message order, so owner-not-root
//!    together with version != 0 must give FORMERR (tightened after seeded
//!    change C09 was missed). Either of them together with malformed options
//!    (not a prescribed problem): FORMERR or the prescribed code.
//! 3. (Withdrawn.) A TSIG TTL field is not a TTL to be clamped: RFC 8945 §4.2
//!    requires the field to be zero, so every non-zero value, 0x80000000 and
//!    0xffffffff included, must give FORMERR at the TSIG record (this was a
//!    genuine defect, repaired in /repo by cd55518).
//! 4. Compression pointers in a QNAME / OPT owner / TSIG owner: "prior
//!    occurrence" is read both as "before the pointer" and as "before the
//!    chunk containing the pointer" (quandary's documented rule, C14); if the
//!    two readings disagree, either verdict is accepted.
//! 5. Over UDP a response that cannot physically hold the TSIG RR (question +
//!    TSIG with long names > 512 / negotiated size) is sent with TC and
//!    without TSIG (DESIGN.md §7a C10, repair of D3); this is accepted instead
//!    of the FORMERR / NOTAUTH the scan would otherwise demand.
//! 6. Converse of C08: a request in which the scanner finds no problem must
//!    not be answered FORMERR (D15 was recorded against C08 in this form).
//! 7. QDCOUNT > 1, QR set, fewer than 12 octets: no response expected (C03);
//!    C07-C09 demand nothing there.

use qvlib::reftsig::{self, Alg};
use qvlib::wire::{self, t, PtrRule};

// ------------------------------------------------------------ verdicts

pub const FORMERR: u8 = 1; // RCODE 1
pub const BADVERS: u8 = 2; // extended RCODE 16
pub const NOTAUTH: u8 = 4; // RCODE 9 (TSIG error)
/// The statements do not prescribe the RCODE for this problem.
pub const ANY: u8 = 8;

#[derive(Clone, Debug, PartialEq, Eq)]
pub enum Stop {
    /// No response is expected at all (C03's territory): shorter than a
    /// header, QR set, QDCOUNT > 1. C07-C09 demand nothing here.
    NoResponse,
    /// The scan stopped at a problem; `allowed` is a bit set of the RCODEs the
    /// statements allow.
    Problem { allowed: u8 },
    /// No problem anywhere: the request goes to opcode dispatch (C07).
    Completed,
}

#[derive(Clone, Debug, PartialEq, Eq)]
pub struct Scan {
    pub stop: Stop,
    /// Short stable description of where / why the scan stopped.
    pub why: &'static str,
    /// An OPT record in the additional section was reached (and so, by C09,
    /// the response carries exactly one OPT).
    pub opt_reached: bool,
    /// A TSIG record was reached and verified.
    pub tsig_ok: bool,
    pub opcode: u8,
    /// (QNAME decompressed, QTYPE, QCLASS) if a question was parsed.
    pub question: Option<(Vec<u8>, u16, u16)>,
    /// Octets the question occupies in the request (and, echoed, in the
    /// response).
    pub qlen: usize,
    /// CLASS (requestor's payload size) of the reached OPT, if that OPT record
    /// was well formed.
    pub opt_payload: Option<u16>,
    /// If TSIG verification was reached: the size of the TSIG RR that RFC 8945
    /// §5.3 puts into the response (signed with a full-length MAC after
    /// success or BADTIME, unsigned otherwise).
    pub tsig_resp_len: Option<usize>,
}

impl Scan {
    /// DESIGN.md §7a (C10 / D3): over UDP, a response that cannot physically
    /// hold header + question (+ OPT) + the TSIG RR is sent without TSIG and
    /// with TC set, whatever else is wrong with the request, so that the client
    /// retries over TCP. True if this request is in that situation.
    pub fn tsig_cannot_fit_udp(&self, server_size: u16) -> bool {
        let Some(tl) = self.tsig_resp_len else { return false };
        let limit = match self.opt_payload {
            Some(p) => p.clamp(512, server_size.max(512)) as usize,
            None => 512,
        };
        12 + self.qlen + if self.opt_reached { 11 } else { 0 } + tl > limit
    }
}

#[derive(Clone, Debug)]
pub struct KeyEntry {
    pub name: Vec<u8>,
    pub alg: Alg,
    pub secret: Vec<u8>,
}

pub struct ScanCfg<'a> {
    pub keys: &'a [KeyEntry],
    /// The server's (virtual) clock, seconds since the epoch.
    pub now: u64,
}

/// The key table of `qvlib::fixtures::tsig_keys()`, restated.
pub fn fixture_keys() -> Vec<KeyEntry> {
    use qvlib::templates::{KEY1_NAME, KEY1_SECRET, KEY2_NAME, KEY2_SECRET};
    let l63 = vec![b'x'; 63];
    let long = wire::wname_from_labels(&[&l63[..], &l63[..], &l63[..], &vec![b'k'; 61][..]]);
    vec![
        KeyEntry { name: wire::wname(KEY1_NAME), alg: Alg::Sha256, secret: KEY1_SECRET.to_vec() },
        KeyEntry { name: wire::wname(KEY2_NAME), alg: Alg::Sha1, secret: KEY2_SECRET.to_vec() },
        KeyEntry { name: long, alg: Alg::Sha256, secret: KEY1_SECRET.to_vec() },
    ]
}

// ------------------------------------------------------------- scanner

struct RecPos {
    typ: u16,
    class: u16,
    ttl: u32,
    rd_off: usize,
    rdlen: usize,
    end: usize,
}

/// RFC 1035 §4.1.3: a record can be delimited when the first chunk of its
/// owner (literal labels up to a root label or a compression pointer) is well
/// formed, the ten octets of TYPE, CLASS, TTL and RDLENGTH follow it, and
/// RDLENGTH octets follow those, all inside the message.
fn delimit(msg: &[u8], start: usize) -> Option<RecPos> {
    let mut o = start;
    let mut literal = 0usize; // octets of literal labels so far
    let owner_end;
    loop {
        let b = *msg.get(o)?;
        if b & 0xc0 == 0xc0 {
            owner_end = o + 2;
            break;
        }
        if b > 63 {
            return None;
        }
        if b == 0 {
            owner_end = o + 1;
            break;
        }
        o += 1 + b as usize;
        literal += 1 + b as usize;
        if literal + 1 > 255 {
            // Even if completed by a single root label the name would
            // exceed 255 octets.
            return None;
        }
    }
    if owner_end + 10 > msg.len() {
        return None;
    }
    let f = &msg[owner_end..owner_end + 10];
    let rdlen = u16::from_be_bytes([f[8], f[9]]) as usize;
    let rd_off = owner_end + 10;
    if rd_off + rdlen > msg.len() {
        return None;
    }
    Some(RecPos {
        typ: u16::from_be_bytes([f[0], f[1]]),
        class: u16::from_be_bytes([f[2], f[3]]),
        ttl: u32::from_be_bytes([f[4], f[5], f[6], f[7]]),
        rd_off,
        rdlen,
        end: rd_off + rdlen,
    })
}

#[derive(Clone, Copy)]
struct Choices {
    rule: PtrRule,
}

struct Used {
    pointer: bool,
}

enum TsigOutcome {
    Ok,
    NotAuth(&'static str),
    FormErr(&'static str),
}

/// RFC 8945 §5.2 for a request: key check, MAC check (with §5.2.2.1), time
/// check, in that order.
fn tsig_verify(msg: &[u8], tsig_off: usize, key_name: &[u8], rd: &reftsig::TsigRdata, cfg: &ScanCfg) -> TsigOutcome {
    let alg_name = wire::lower(&rd.alg_name);
    let alg = if alg_name == Alg::Sha256.wire_name() {
        Alg::Sha256
    } else if alg_name == Alg::Sha1.wire_name() {
        Alg::Sha1
    } else {
        return TsigOutcome::NotAuth("tsig:BADKEY(algorithm)");
    };
    let Some(key) = cfg.keys.iter().find(|k| wire::eq_ci(&k.name, key_name) && k.alg == alg) else {
        return TsigOutcome::NotAuth("tsig:BADKEY");
    };
    let full = alg.mac_len();
    let min = std::cmp::max(10, (full + 1) / 2);
    if rd.mac.len() > full || rd.mac.len() < min {
        return TsigOutcome::FormErr("tsig:mac-size");
    }
    let vars = reftsig::TsigVars {
        key_name: key_name.to_vec(),
        alg_name: rd.alg_name.clone(),
        time_signed: rd.time_signed,
        fudge: rd.fudge,
        error: rd.error,
        other: rd.other.clone(),
    };
    let mac = reftsig::mac_request(alg, &key.secret, &msg[..tsig_off], rd.original_id, &vars);
    if mac[..rd.mac.len()] != rd.mac[..] {
        return TsigOutcome::NotAuth("tsig:BADSIG");
    }
    let lo = rd.time_signed.saturating_sub(rd.fudge as u64);
    let hi = rd.time_signed + rd.fudge as u64;
    if cfg.now < lo || cfg.now > hi {
        return TsigOutcome::NotAuth("tsig:BADTIME");
    }
    TsigOutcome::Ok
}

fn mac_len_of(alg_name: &[u8]) -> usize {
    if wire::lower(alg_name) == Alg::Sha1.wire_name() {
        Alg::Sha1.mac_len()
    } else {
        Alg::Sha256.mac_len()
    }
}

fn scan_one(msg: &[u8], cfg: &ScanCfg, ch: Choices, used: &mut Used) -> Scan {
    let mut s = Scan { stop: Stop::Completed, why: "completed", opt_reached: false, tsig_ok: false, opcode: 0, question: None, qlen: 0, opt_payload: None, tsig_resp_len: None };
    let stop = |mut s: Scan, allowed: u8, why: &'static str| {
        s.stop = Stop::Problem { allowed };
        s.why = why;
        s
    };
    let Some(h) = wire::Header::parse(msg) else {
        s.stop = Stop::NoResponse;
        s.why = "short-header";
        return s;
    };
    s.opcode = h.opcode;
    if h.qr {
        s.stop = Stop::NoResponse;
        s.why = "qr-set";
        return s;
    }
    if h.qdcount > 1 {
        s.stop = Stop::NoResponse;
        s.why = "qdcount>1";
        return s;
    }
    let mut pos = 12;
    if h.qdcount == 1 {
        match wire::decode_name(msg, pos, ch.rule) {
            Ok(d) => {
                if !d.pointers.is_empty() {
                    used.pointer = true;
                }
                let e = pos + d.first_chunk_len;
                if e + 4 > msg.len() {
                    return stop(s, FORMERR, "question:fixed-fields-cut");
                }
                s.question = Some((d.name, u16::from_be_bytes([msg[e], msg[e + 1]]), u16::from_be_bytes([msg[e + 2], msg[e + 3]])));
                s.qlen = e + 4 - pos;
                pos = e + 4;
            }
            Err(e) => {
                if e == wire::NameErr::BadPointer {
                    used.pointer = true;
                }
                return stop(s, FORMERR, "question:qname");
            }
        }
    }
    // Answer and authority records.
    for _ in 0..(h.ancount as usize + h.nscount as usize) {
        let Some(r) = delimit(msg, pos) else {
            return stop(s, FORMERR, "an/ns:undelimitable");
        };
        if r.typ == t::OPT {
            return stop(s, FORMERR, "an/ns:OPT-misplaced");
        }
        if r.typ == t::TSIG {
            return stop(s, FORMERR, "an/ns:TSIG-misplaced");
        }
        pos = r.end;
    }
    // Additional records.
    let ar = h.arcount as usize;
    for idx in 0..ar {
        let Some(r) = delimit(msg, pos) else {
            return stop(s, FORMERR, "ar:undelimitable");
        };
        if r.typ == t::OPT {
            if s.opt_reached {
                return stop(s, FORMERR, "ar:second-OPT");
            }
            s.opt_reached = true;
            let owner = wire::decode_name(msg, pos, ch.rule);
            match &owner {
                Ok(d) if !d.pointers.is_empty() => used.pointer = true,
                Err(wire::NameErr::BadPointer) => used.pointer = true,
                _ => {}
            }
            let rd = &msg[r.rd_off..r.rd_off + r.rdlen];
            let rdata_bad = !wire::rdata_valid(r.class, t::OPT, rd);
            let version = (r.ttl >> 16) as u8;
            match owner {
                Err(_) => return stop(s, ANY, "opt:owner-unparseable"),
                Ok(d) => {
                    let nonroot = d.name != [0u8];
                    let mut allowed = 0u8;
                    if nonroot {
                        allowed |= FORMERR;
                    }
                    // Message order decides between two problems of one OPT
                    // record: the owner field precedes the TTL field that
                    // carries the version, so a non-root owner is the first
                    // problem and must give FORMERR whatever the version
                    // ("FORMERR is never replaced"; BADVERS may only win when
                    // it is detected earlier in the message).
                    if version != 0 && !nonroot {
                        allowed |= BADVERS;
                    }
                    if rdata_bad {
                        allowed = if allowed == 0 { ANY } else { allowed | FORMERR };
                    }
                    let why = match (nonroot, version != 0, rdata_bad) {
                        (false, false, false) => "",
                        (true, false, false) => "opt:owner-not-root",
                        (false, true, false) => "opt:version",
                        (true, true, false) => "opt:owner-not-root+version",
                        (false, false, true) => "opt:rdata-malformed",
                        (true, false, true) => "opt:owner-not-root+rdata-malformed",
                        (false, true, true) => "opt:version+rdata-malformed",
                        (true, true, true) => "opt:owner-not-root+version+rdata-malformed",
                    };
                    if !rdata_bad {
                        s.opt_payload = Some(r.class);
                    }
                    if allowed != 0 {
                        return stop(s, allowed, why);
                    }
                }
            }
        } else if r.typ == t::TSIG {
            if idx != ar - 1 {
                return stop(s, FORMERR, "tsig:not-last");
            }
            if r.class != 255 {
                return stop(s, FORMERR, "tsig:class");
            }
            if r.ttl != 0 {
                // The raw 32-bit field: no RFC 2181 clamping for a pseudo-RR.
                return stop(s, FORMERR, if r.ttl > 0x7fff_ffff { "tsig:ttl(msb)" } else { "tsig:ttl" });
            }
            let owner = wire::decode_name(msg, pos, ch.rule);
            match &owner {
                Ok(d) if !d.pointers.is_empty() => used.pointer = true,
                Err(wire::NameErr::BadPointer) => used.pointer = true,
                _ => {}
            }
            let Ok(owner) = owner else {
                return stop(s, ANY, "tsig:owner-unparseable");
            };
            let Some(rd) = reftsig::parse_tsig_rdata(&msg[r.rd_off..r.rd_off + r.rdlen]) else {
                return stop(s, ANY, "tsig:rdata-malformed");
            };
            let outcome = tsig_verify(msg, pos, &owner.name, &rd, cfg);
            let (mac, other) = match &outcome {
                TsigOutcome::Ok => (mac_len_of(&rd.alg_name), 0),
                TsigOutcome::NotAuth("tsig:BADTIME") => (mac_len_of(&rd.alg_name), 6),
                _ => (0, 0),
            };
            s.tsig_resp_len = Some(owner.name.len() + 10 + rd.alg_name.len() + 16 + mac + other);
            match outcome {
                TsigOutcome::Ok => s.tsig_ok = true,
                TsigOutcome::NotAuth(why) => return stop(s, NOTAUTH, why),
                TsigOutcome::FormErr(why) => return stop(s, FORMERR, why),
            }
        }
        pos = r.end;
    }
    // After the last counted record.
    if pos != msg.len() {
        return stop(s, FORMERR, "end:octets-remain");
    }
    if h.opcode == 0 && h.qdcount == 0 {
        return stop(s, FORMERR, "end:query-without-question");
    }
    s
}

/// All readings of the request the statements allow (usually one). More than
/// one arises only where the pointer rule the statements leave open ("prior
/// occurrence": before the pointer, or before the chunk holding it) changed
/// the outcome.
pub fn scan_all(msg: &[u8], cfg: &ScanCfg) -> Vec<Scan> {
    let mut used = Used { pointer: false };
    let first = scan_one(msg, cfg, Choices { rule: PtrRule::BeforeChunkStart }, &mut used);
    let mut out = vec![first];
    if used.pointer {
        let mut u = Used { pointer: false };
        let sc = scan_one(msg, cfg, Choices { rule: PtrRule::BeforePointer }, &mut u);
        if !out.contains(&sc) {
            out.push(sc);
        }
    }
    out
}

// ------------------------------------------------------------ observation

#[derive(Clone, Debug)]
pub struct Obs {
    /// 12-bit RCODE including the OPT's upper bits.
    pub ext: u16,
    pub aa: bool,
    pub tc: bool,
    pub an: usize,
    pub ns: usize,
    /// Additional records other than OPT / TSIG.
    pub ar_data: usize,
    /// OPT records anywhere in the response, and how many of them sit in the
    /// additional section.
    pub n_opt: usize,
    pub n_opt_additional: usize,
    pub n_tsig: usize,
    /// (owner, class, ttl field, rdlength) of the first OPT.
    pub opt: Option<(Vec<u8>, u16, u32, usize)>,
    pub msg: wire::Msg,
}

pub fn observe(resp: &[u8]) -> Result<Obs, String> {
    let m = wire::decode_message(resp, PtrRule::BeforeChunkStart, true)?;
    let n_opt = m.all_rrs().filter(|r| r.typ == t::OPT).count();
    let n_opt_additional = m.additional.iter().filter(|r| r.typ == t::OPT).count();
    let n_tsig = m.all_rrs().filter(|r| r.typ == t::TSIG).count();
    let opt = m.all_rrs().find(|r| r.typ == t::OPT).map(|r| (r.name.clone(), r.class, r.ttl, r.rdata_raw.len()));
    Ok(Obs {
        ext: m.ext_rcode(),
        aa: m.header.aa,
        tc: m.header.tc,
        an: m.answers.len(),
        ns: m.authority.len(),
        ar_data: m.additional_data().len(),
        n_opt,
        n_opt_additional,
        n_tsig,
        opt,
        msg: m,
    })
}

impl Obs {
    pub fn class(&self) -> String {
        format!("rcode={},an={},ns={},opt={},tsig={}{}", self.ext, self.an.min(2), self.ns.min(2), self.n_opt, self.n_tsig, if self.tc { ",tc" } else { "" })
    }
}

pub fn allowed_text(allowed: u8) -> String {
    let mut v = Vec::new();
    if allowed & FORMERR != 0 {
        v.push("FORMERR");
    }
    if allowed & BADVERS != 0 {
        v.push("BADVERS");
    }
    if allowed & NOTAUTH != 0 {
        v.push("NOTAUTH");
    }
    if allowed & ANY != 0 {
        v.push("unprescribed");
    }
    v.join("|")
}

/// Does the observed response satisfy what one reading of the request
/// demands of the RCODE and of the answer / authority sections?
/// Returns Err(short key) if not.
pub fn judge_rcode(sc: &Scan, o: &Obs) -> Result<(), &'static str> {
    match &sc.stop {
        Stop::NoResponse => Ok(()),
        Stop::Completed => {
            // Converse of C08: nothing is wrong with the request, so FORMERR
            // is not a truthful answer (this is how D15 showed).
            if o.ext == 1 {
                Err("formerr-for-wellformed-request")
            } else {
                Ok(())
            }
        }
        Stop::Problem { allowed } => {
            let is_formerr = o.ext == 1;
            let is_badvers = o.ext == 16;
            let is_notauth = o.ext == 9;
            // Whatever error is reported, it comes without answer or
            // authority data.
            if (is_formerr || is_badvers) && (o.an != 0 || o.ns != 0) {
                return Err("error-response-with-answer-or-authority-data");
            }
            if allowed & ANY != 0 {
                return Ok(());
            }
            let ok = (allowed & FORMERR != 0 && is_formerr) || (allowed & BADVERS != 0 && is_badvers) || (allowed & NOTAUTH != 0 && is_notauth);
            if ok {
                Ok(())
            } else if allowed & FORMERR != 0 {
                Err("formerr-expected")
            } else if allowed & BADVERS != 0 {
                Err("badvers-expected")
            } else {
                Err("notauth-expected")
            }
        }
    }
}

/// C09: exactly one OPT (in the additional section, owner root, class = the
/// server's payload size, version 0) iff an OPT of the request's additional
/// section was reached.
pub fn judge_opt(sc: &Scan, o: &Obs, server_size: u16) -> Result<(), &'static str> {
    if sc.stop == Stop::NoResponse {
        return Ok(());
    }
    if sc.opt_reached {
        if o.n_opt == 0 {
            return Err("opt-missing");
        }
        if o.n_opt != 1 || o.n_opt_additional != 1 {
            return Err("opt-not-exactly-one-in-additional");
        }
        let (owner, class, ttl, _) = o.opt.as_ref().unwrap();
        if owner != &[0u8] {
            return Err("opt-owner-not-root");
        }
        if *class != server_size {
            return Err("opt-class-not-server-size");
        }
        if (ttl >> 16) & 0xff != 0 {
            return Err("opt-version-not-0");
        }
        Ok(())
    } else if o.n_opt != 0 {
        Err("opt-unexpected")
    } else {
        Ok(())
    }
}

// ------------------------------------------------------- catalog model

#[derive(Clone, Copy, Debug, PartialEq, Eq, PartialOrd, Ord, Hash)]
pub enum Status {
    Loaded,
    NotYetLoaded,
    FailedToLoad,
}

impl Status {
    pub fn name(self) -> &'static str {
        match self {
            Status::Loaded => "loaded",
            Status::NotYetLoaded => "notyetloaded",
            Status::FailedToLoad => "failedtoload",
        }
    }
    pub fn from_name(s: &str) -> Status {
        match s {
            "loaded" => Status::Loaded,
            "notyetloaded" => Status::NotYetLoaded,
            _ => Status::FailedToLoad,
        }
    }
}

#[derive(Clone, Debug, PartialEq, Eq, PartialOrd, Ord, Hash)]
pub struct RefEntry {
    pub name: Vec<u8>,
    pub class: u16,
    pub status: Status,
}

/// RFC 1034 §4.3.2 step 2: among the entries of the query's class, the one
/// whose name is the longest suffix (label-wise, case-insensitively) of the
/// QNAME.
pub fn ref_lookup<'a>(cat: &'a [RefEntry], qname: &[u8], class: u16) -> Option<&'a RefEntry> {
    cat.iter()
        .filter(|e| e.class == class && wire::eq_or_subdomain(qname, &e.name))
        .max_by_key(|e| wire::labels(&e.name).len())
}
