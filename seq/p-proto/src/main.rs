//! p-proto: protocol-level server checks.
//!
//!   C07  zone selection and RCODEs for unsupported queries
//!   C08  malformed requests are answered with FORMERR
//!   C09  EDNS(0) requests get correct OPT handling
//!
//! All three are bounded-exhaustive input-shape explorations: an explicitly
//! described finite family of requests (and catalogs / server settings) is
//! enumerated completely, the real `Server::handle_message` is run on every
//! member, and the response is compared with the verdict of the independent
//! reference model in `model.rs` (an in-message-order request scanner written
//! from RFC 1035 / 6891 / 8945 and the property statements, plus a
//! longest-suffix catalog model).

mod c07;
mod c08;
mod c09;
mod model;

use qvlib::Ctx;

fn main() {
    let ctx = Ctx::from_args(&["C07", "C08", "C09"]);
    qvlib::reftsig::self_test();
    match ctx.id.as_str() {
        "C07" => c07::run(ctx),
        "C08" => c08::run(ctx),
        "C09" => c09::run(ctx),
        _ => unreachable!(),
    }
}
