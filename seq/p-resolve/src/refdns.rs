//! Reference model of an authoritative zone and of the resolution algorithm,
//! written from RFC 1034 §4.3.2, RFC 4592 (wildcards), RFC 6604 (RCODE of
//! CNAME chains), RFC 2308 §3 (negative-answer SOA) and the statements of
//! C05 / C06. It never calls quandary.
//!
//! A zone is a flat map  owner (lower-case wire name) -> type -> RRset.  The
//! tree structure of the DNS is *not* materialised: existence of a name
//! (including empty non-terminals) is decided from the set of all suffixes of
//! all owners, and lookups walk the suffixes of the query name from the apex
//! downwards.

use std::collections::{BTreeMap, BTreeSet};

use qvlib::qd::Rec;
use qvlib::wire::{self, c, rc, t, WName};

#[derive(Clone, Debug, PartialEq, Eq, PartialOrd, Ord)]
pub struct RRset {
    pub ttl: u32,
    /// In insertion order, duplicates (RFC 2181 §5: identical RDATA; names of
    /// well-known types compared case-insensitively) removed.
    pub rdatas: Vec<Vec<u8>>,
}

#[derive(Clone, Debug)]
pub struct RefZone {
    /// Lower-case.
    pub apex: WName,
    pub class: u16,
    pub nodes: BTreeMap<WName, BTreeMap<u16, RRset>>,
    /// Every owner and every suffix of an owner down to the apex: the names
    /// that "exist" in the sense of RFC 4592 §2.2.2 (empty non-terminals
    /// included).
    pub exists: BTreeSet<WName>,
}

/// Offsets of the starts of the labels of a valid uncompressed name (root
/// label excluded).
pub fn label_offsets(n: &[u8]) -> Vec<usize> {
    let mut out = Vec::with_capacity(8);
    let mut i = 0;
    while i < n.len() && n[i] != 0 {
        out.push(i);
        i += 1 + n[i] as usize;
    }
    out
}

/// The suffix of `n` that has `k` labels.
fn suffix<'a>(n: &'a [u8], offs: &[usize], k: usize) -> &'a [u8] {
    if k == 0 {
        &n[n.len() - 1..]
    } else {
        &n[offs[offs.len() - k]..]
    }
}

pub fn n_labels(n: &[u8]) -> usize {
    label_offsets(n).len()
}

/// What the walk from the apex towards a name ends in.
#[derive(Clone, Debug, PartialEq, Eq)]
pub enum Base {
    /// The data of node `node` answers the lookup. `sos` is the source of
    /// synthesis if `node` is a wildcard used for a name that does not exist.
    /// `synth_below_cut`: the synthesis happened at or below a delegation
    /// point that was ignored because of search_below_cuts (the statement
    /// does not say whether wildcards apply in glue territory).
    Node { node: WName, sos: Option<WName>, synth_below_cut: bool },
    Referral { cut: WName },
    NxDomain,
}

#[derive(Clone, Debug, PartialEq, Eq)]
pub enum Look {
    Found { rrset: RRset, sos: Option<WName> },
    Cname { rrset: RRset, sos: Option<WName> },
    Referral { cut: WName, ns: RRset },
    NoRecords { sos: Option<WName> },
    NxDomain,
    WrongZone,
}

#[derive(Clone, Debug, PartialEq, Eq)]
pub enum LookAddrs {
    Found { a: Option<RRset>, aaaa: Option<RRset>, cname_present: bool, sos: Option<WName> },
    Referral { cut: WName, ns: RRset },
    NxDomain,
    WrongZone,
}

#[derive(Clone, Debug, PartialEq, Eq)]
pub enum LookAll {
    Found { rrsets: BTreeMap<u16, RRset>, sos: Option<WName> },
    Referral { cut: WName, ns: RRset },
    NxDomain,
    WrongZone,
}

impl RefZone {
    /// Builds the model from the same record list that is given to quandary.
    /// Err = the list is not a consistent zone (owner outside, class
    /// mismatch, TTL mismatch inside an RRset): the generators never produce
    /// such lists, so callers treat Err as a harness bug.
    pub fn build(apex: &[u8], class: u16, recs: &[Rec]) -> Result<RefZone, String> {
        let apex = wire::lower(apex);
        let mut nodes: BTreeMap<WName, BTreeMap<u16, RRset>> = BTreeMap::new();
        let mut exists: BTreeSet<WName> = BTreeSet::new();
        exists.insert(apex.clone());
        let apex_labels = n_labels(&apex);
        for (i, r) in recs.iter().enumerate() {
            if r.class != class {
                return Err(format!("record {i}: class mismatch"));
            }
            if !wire::eq_or_subdomain(&r.owner, &apex) {
                return Err(format!("record {i}: owner outside the zone"));
            }
            let owner = wire::lower(&r.owner);
            let offs = label_offsets(&owner);
            for k in apex_labels..=offs.len() {
                let s = suffix(&owner, &offs, k);
                if !exists.contains(s) {
                    exists.insert(s.to_vec());
                }
            }
            let node = nodes.entry(owner).or_default();
            match node.get_mut(&r.typ) {
                None => {
                    node.insert(r.typ, RRset { ttl: r.ttl, rdatas: vec![r.rdata.clone()] });
                }
                Some(set) => {
                    if set.ttl != r.ttl {
                        return Err(format!("record {i}: TTL differs from its RRset"));
                    }
                    let canon = wire::canon_rdata(class, r.typ, &r.rdata);
                    if !set.rdatas.iter().any(|x| wire::canon_rdata(class, r.typ, x) == canon) {
                        set.rdatas.push(r.rdata.clone());
                    }
                }
            }
        }
        Ok(RefZone { apex, class, nodes, exists })
    }

    pub fn in_zone(&self, name: &[u8]) -> bool {
        wire::eq_or_subdomain(name, &self.apex)
    }

    pub fn rrset(&self, node: &[u8], typ: u16) -> Option<&RRset> {
        self.nodes.get(node).and_then(|n| n.get(&typ))
    }

    fn has_ns(&self, node: &[u8]) -> bool {
        self.rrset(node, t::NS).is_some()
    }

    /// RFC 1034 §4.3.2 step 3 with RFC 4592 §3.3: walk down from the apex
    /// one label at a time. `name` must be inside the zone.
    ///
    /// * a non-apex name on the path that owns NS is a zone cut: unless
    ///   `search_below_cuts`, the walk stops there (topmost cut wins, and the
    ///   cut applies even when it is the target name itself);
    /// * if the next name on the path does not exist, the last one that did
    ///   is the closest encloser; the source of synthesis is `*.<closest
    ///   encloser>` if that name exists (possibly as an empty non-terminal),
    ///   otherwise the result is a name error. NS at the wildcard itself is
    ///   not a cut when the wildcard is reached by synthesis (RFC 4592 §4.2
    ///   leaves it undefined; DESIGN.md §7a).
    pub fn walk(&self, name: &[u8], search_below_cuts: bool) -> Base {
        let name = wire::lower(name);
        let offs = label_offsets(&name);
        let apex_labels = n_labels(&self.apex);
        let mut passed_cut = false;
        for k in apex_labels + 1..=offs.len() {
            let anc = suffix(&name, &offs, k);
            if !self.exists.contains(anc) {
                let encloser = suffix(&name, &offs, k - 1);
                let star = wire::child(b"*", encloser);
                return if self.exists.contains(&star) {
                    Base::Node { node: star.clone(), sos: Some(star), synth_below_cut: passed_cut }
                } else {
                    Base::NxDomain
                };
            }
            if self.has_ns(anc) {
                if !search_below_cuts {
                    return Base::Referral { cut: anc.to_vec() };
                }
                passed_cut = true;
            }
        }
        Base::Node { node: name, sos: None, synth_below_cut: false }
    }

    fn referral(&self, cut: WName) -> (WName, RRset) {
        let ns = self.rrset(&cut, t::NS).expect("cut without NS").clone();
        (cut, ns)
    }

    /// Single-type lookup. Second member: the statement leaves open whether
    /// NxDomain is the answer instead (wildcard synthesis in glue territory).
    pub fn lookup(&self, name: &[u8], typ: u16, unchecked: bool, search_below_cuts: bool) -> (Look, bool) {
        if !self.in_zone(name) {
            assert!(!unchecked, "model asked for an out-of-zone name with unchecked=true");
            return (Look::WrongZone, false);
        }
        match self.walk(name, search_below_cuts) {
            Base::Node { node, sos, synth_below_cut } => {
                let r = if let Some(s) = self.rrset(&node, typ) {
                    Look::Found { rrset: s.clone(), sos }
                } else if let Some(s) = self.rrset(&node, t::CNAME) {
                    Look::Cname { rrset: s.clone(), sos }
                } else {
                    Look::NoRecords { sos }
                };
                (r, synth_below_cut)
            }
            Base::Referral { cut } => {
                let (cut, ns) = self.referral(cut);
                (Look::Referral { cut, ns }, false)
            }
            Base::NxDomain => (Look::NxDomain, false),
        }
    }

    pub fn lookup_addrs(&self, name: &[u8], unchecked: bool, search_below_cuts: bool) -> (LookAddrs, bool) {
        if !self.in_zone(name) {
            assert!(!unchecked);
            return (LookAddrs::WrongZone, false);
        }
        match self.walk(name, search_below_cuts) {
            Base::Node { node, sos, synth_below_cut } => {
                let a = self.rrset(&node, t::A).cloned();
                // AAAA is an address type of the Internet class only.
                let aaaa = if self.class == c::IN { self.rrset(&node, t::AAAA).cloned() } else { None };
                let cname_present = self.rrset(&node, t::CNAME).is_some();
                (LookAddrs::Found { a, aaaa, cname_present, sos }, synth_below_cut)
            }
            Base::Referral { cut } => {
                let (cut, ns) = self.referral(cut);
                (LookAddrs::Referral { cut, ns }, false)
            }
            Base::NxDomain => (LookAddrs::NxDomain, false),
        }
    }

    pub fn lookup_all(&self, name: &[u8], unchecked: bool, search_below_cuts: bool) -> (LookAll, bool) {
        if !self.in_zone(name) {
            assert!(!unchecked);
            return (LookAll::WrongZone, false);
        }
        match self.walk(name, search_below_cuts) {
            Base::Node { node, sos, synth_below_cut } => {
                let rrsets = self.nodes.get(&node).cloned().unwrap_or_default();
                (LookAll::Found { rrsets, sos }, synth_below_cut)
            }
            Base::Referral { cut } => {
                let (cut, ns) = self.referral(cut);
                (LookAll::Referral { cut, ns }, false)
            }
            Base::NxDomain => (LookAll::NxDomain, false),
        }
    }

    /// Zones for which the statement of C05 determines the answers: exactly
    /// one SOA with well-formed RDATA at the apex, a CNAME is alone at its
    /// owner and single, no NS at a wildcard owner (RFC 4592 §4.2:
    /// undefined), all name-bearing RDATA well formed.
    pub fn c05_defined(&self) -> Result<(), &'static str> {
        match self.rrset(&self.apex, t::SOA) {
            Some(s) if s.rdatas.len() == 1 => {}
            Some(_) => return Err("several SOA"),
            None => return Err("no SOA"),
        }
        for (owner, sets) in &self.nodes {
            for (typ, set) in sets {
                for rd in &set.rdatas {
                    if !wire::rdata_valid(self.class, *typ, rd) {
                        return Err("malformed RDATA");
                    }
                }
                if *typ == t::CNAME && (sets.len() != 1 || set.rdatas.len() != 1) {
                    return Err("CNAME and other data / several CNAMEs");
                }
                if *typ == t::NS && wire::labels(owner).first().map(|l| *l == b"*").unwrap_or(false) {
                    return Err("NS at a wildcard");
                }
            }
        }
        Ok(())
    }
}

// ---------------------------------------------------------------------
// Resolver (C05)
// ---------------------------------------------------------------------

/// Canonical RR: the tuple produced by `qvlib::wire::canon_rr`.
pub type CanonRr = (WName, u16, u16, u32, Vec<u8>);

pub fn canon(owner: &[u8], typ: u16, class: u16, ttl: u32, rdata: &[u8]) -> CanonRr {
    (wire::lower(owner), typ, class, ttl, wire::canon_rdata(class, typ, rdata))
}

#[derive(Clone, Debug, Default, PartialEq, Eq)]
pub struct Expect {
    pub rcode: u8,
    pub aa: bool,
    pub answer: Vec<CanonRr>,
    pub authority: Vec<CanonRr>,
    /// RR -> (least, most) number of occurrences accepted.
    pub additional: BTreeMap<CanonRr, (u32, u32)>,
    /// Short description of the path taken (for outcome classes).
    pub kind: String,
}

pub const MAX_CNAME_LINKS: usize = 8;

fn servfail(kind: &str) -> Expect {
    Expect { rcode: rc::SERVFAIL, aa: false, kind: kind.to_string(), ..Default::default() }
}

fn whole_name(rd: &[u8]) -> Option<WName> {
    if wire::is_valid_uncompressed_all(rd) {
        Some(rd.to_vec())
    } else {
        None
    }
}

/// Offset of the target name in the RDATA of the types whose targets get
/// address records (RFC 1034 §4.3.2 step 6, RFC 1035 §3.3, RFC 2782).
fn target_offset(typ: u16) -> Option<usize> {
    match typ {
        t::NS | t::MD | t::MF | t::MB => Some(0),
        t::MX => Some(2),
        t::SRV => Some(6),
        _ => None,
    }
}

#[derive(Clone, Copy, PartialEq, Eq)]
enum Need {
    Must,
    May,
}

impl RefZone {
    fn add_addrs(&self, out: &mut BTreeMap<CanonRr, (u32, u32)>, owner: &[u8], set: &RRset, typ: u16, need: Need) {
        for rd in &set.rdatas {
            let e = out.entry(canon(owner, typ, self.class, set.ttl, rd)).or_insert((0, 0));
            if need == Need::Must {
                e.0 = 1;
            }
            e.1 += 1;
        }
    }

    /// Address records of `target` as the zone knows them.
    /// `glue_ctx`: Some(cut) when building a referral for `cut`.
    fn target_addresses(&self, catalog: &[RefZone], out: &mut BTreeMap<CanonRr, (u32, u32)>, target: &[u8], referral_cut: Option<&[u8]>) {
        if !self.in_zone(target) {
            // Nothing is known in this zone. The statement speaks of in-zone
            // processing, but does not forbid adding what another zone of
            // the catalog holds authoritatively: accepted, never required.
            if let Some(z) = best_zone(catalog, target, self.class) {
                if let (LookAddrs::Found { a, aaaa, .. }, _) = z.lookup_addrs(target, false, false) {
                    if let Some(a) = a {
                        self.add_addrs(out, target, &a, t::A, Need::May);
                    }
                    if let Some(aaaa) = aaaa {
                        self.add_addrs(out, target, &aaaa, t::AAAA, Need::May);
                    }
                }
            }
            return;
        }
        // Where does the name live?
        let (auth, _) = self.lookup_addrs(target, false, false);
        let (res, need) = match (&auth, referral_cut) {
            // Authoritative data of this zone (wildcard synthesis included):
            // "address records for NS/MX/SRV targets".
            (LookAddrs::Found { .. }, _) => (auth.clone(), Need::Must),
            (LookAddrs::Referral { .. }, Some(cut)) => {
                let (below, _) = self.lookup_addrs(target, false, true);
                // Glue for a name server inside the delegated zone is
                // mandatory; glue below another cut (sibling glue) is optional.
                let need = if wire::eq_or_subdomain(target, cut) { Need::Must } else { Need::May };
                (below, need)
            }
            // Authoritative answer whose target lives below a cut: the
            // statement does not say whether glue is added.
            (LookAddrs::Referral { .. }, None) => (self.lookup_addrs(target, false, true).0, Need::May),
            _ => return,
        };
        if let LookAddrs::Found { a, .. } = &res {
            // AAAA is read directly: the class rule is applied below.
            let node_aaaa = match self.walk(target, true) {
                Base::Node { node, .. } => self.rrset(&node, t::AAAA).cloned(),
                _ => None,
            };
            let class_known = self.class == c::IN || self.class == c::CH;
            // Classes without defined address types: only referral glue is
            // required (the delegation would not work otherwise).
            let need_a = if class_known || referral_cut.is_some() { need } else { Need::May };
            if let Some(a) = a {
                self.add_addrs(out, target, a, t::A, need_a);
            }
            if let Some(aaaa) = node_aaaa {
                let need_aaaa = if self.class == c::IN { need } else { Need::May };
                self.add_addrs(out, target, &aaaa, t::AAAA, need_aaaa);
            }
        }
    }

    /// Additional-section processing for an answer RRset.
    fn answer_additional(&self, catalog: &[RefZone], typ: u16, set: &RRset, out: &mut BTreeMap<CanonRr, (u32, u32)>) -> Result<(), ()> {
        let Some(off) = target_offset(typ) else { return Ok(()) };
        for rd in &set.rdatas {
            let target = rd.get(off..).and_then(whole_name).ok_or(())?;
            self.target_addresses(catalog, out, &target, None);
        }
        Ok(())
    }

    fn referral_expect(&self, catalog: &[RefZone], cut: &[u8], ns: &RRset, mut e: Expect) -> Expect {
        for rd in &ns.rdatas {
            e.authority.push(canon(cut, t::NS, self.class, ns.ttl, rd));
        }
        for rd in &ns.rdatas {
            let Some(target) = whole_name(rd) else { return servfail("servfail-bad-ns-rdata") };
            self.target_addresses(catalog, &mut e.additional, &target, Some(cut));
        }
        e.kind.push_str("referral");
        e
    }

    /// RFC 2308 §3: the SOA with TTL min(SOA TTL, MINIMUM), both taken as raw
    /// unsigned 32-bit values.
    fn negative_soa(&self) -> Option<CanonRr> {
        let soa = self.rrset(&self.apex, t::SOA)?;
        let rd = soa.rdatas.first()?;
        if !wire::rdata_valid(self.class, t::SOA, rd) {
            return None;
        }
        let m = &rd[rd.len() - 4..];
        let minimum = u32::from_be_bytes([m[0], m[1], m[2], m[3]]);
        Some(canon(&self.apex, t::SOA, self.class, soa.ttl.min(minimum), rd))
    }

    fn negative(&self, mut e: Expect, nxdomain: bool, kind: &str) -> Expect {
        match self.negative_soa() {
            Some(soa) => {
                e.authority.push(soa);
                if nxdomain {
                    e.rcode = rc::NXDOMAIN;
                }
                e.kind.push_str(kind);
                e
            }
            None => servfail("servfail-no-soa"),
        }
    }

    /// Answers a query whose QNAME belongs to this zone.
    /// `catalog`: all zones served (only used to accept, never to require,
    /// additional data held by other zones).
    pub fn resolve(&self, catalog: &[RefZone], qname: &[u8], qtype: u16) -> Expect {
        if qtype == t::ANY {
            return self.resolve_any(catalog, qname);
        }
        let mut e = Expect::default();
        let mut cur: WName = qname.to_vec();
        let mut visited: Vec<WName> = vec![wire::lower(qname)];
        let mut links = 0usize;
        loop {
            let first = links == 0;
            if !first && !self.in_zone(&cur) {
                // The chain left the zone: the answer is what was collected.
                e.kind.push_str("out-of-zone");
                return e;
            }
            let (res, _) = self.lookup(&cur, qtype, false, false);
            // RFC 6604 §2.1 / RFC 1035 §4.1.1: AA describes the first owner
            // name of the answer section.
            if first && !matches!(res, Look::Referral { .. }) {
                e.aa = true;
            }
            match res {
                Look::Found { rrset, sos } => {
                    for rd in &rrset.rdatas {
                        e.answer.push(canon(&cur, qtype, self.class, rrset.ttl, rd));
                    }
                    if self.answer_additional(catalog, qtype, &rrset, &mut e.additional).is_err() {
                        return servfail("servfail-bad-target-rdata");
                    }
                    e.kind.push_str(if sos.is_some() { "found-wild" } else { "found" });
                    return e;
                }
                Look::Cname { rrset, sos } => {
                    let Some(target) = rrset.rdatas.first().and_then(|rd| whole_name(rd)) else {
                        return servfail("servfail-bad-cname-rdata");
                    };
                    links += 1;
                    if links > MAX_CNAME_LINKS {
                        return servfail("servfail-chain-too-long");
                    }
                    let tl = wire::lower(&target);
                    if visited.contains(&tl) {
                        return servfail("servfail-cname-loop");
                    }
                    e.answer.push(canon(&cur, t::CNAME, self.class, rrset.ttl, &target));
                    e.kind = format!("cname*{links}{}:", if sos.is_some() { "w" } else { "" });
                    visited.push(tl);
                    cur = target;
                }
                Look::Referral { cut, ns } => return self.referral_expect(catalog, &cut, &ns, e),
                Look::NoRecords { sos } => {
                    return self.negative(e, false, if sos.is_some() { "nodata-wild" } else { "nodata" })
                }
                Look::NxDomain => return self.negative(e, true, "nxdomain"),
                Look::WrongZone => unreachable!(),
            }
        }
    }

    fn resolve_any(&self, catalog: &[RefZone], qname: &[u8]) -> Expect {
        let mut e = Expect { kind: "any:".into(), ..Default::default() };
        match self.lookup_all(qname, false, false).0 {
            LookAll::Found { rrsets, sos } => {
                e.aa = true;
                if rrsets.is_empty() {
                    return self.negative(e, false, if sos.is_some() { "nodata-wild" } else { "nodata" });
                }
                for (typ, set) in &rrsets {
                    for rd in &set.rdatas {
                        e.answer.push(canon(qname, *typ, self.class, set.ttl, rd));
                    }
                }
                e.kind.push_str(if sos.is_some() { "found-wild" } else { "found" });
                e
            }
            LookAll::Referral { cut, ns } => self.referral_expect(catalog, &cut, &ns, e),
            LookAll::NxDomain => {
                e.aa = true;
                self.negative(e, true, "nxdomain")
            }
            LookAll::WrongZone => unreachable!(),
        }
    }
}

/// RFC 1034 §4.3.2 step 2: the zone that is the nearest ancestor of QNAME
/// in QCLASS; none => REFUSED (not authoritative, no recursion).
pub fn best_zone<'a>(zones: &'a [RefZone], name: &[u8], class: u16) -> Option<&'a RefZone> {
    let mut best: Option<&RefZone> = None;
    for z in zones {
        if z.class == class && z.in_zone(name) && best.map(|b| n_labels(&z.apex) > n_labels(&b.apex)).unwrap_or(true) {
            best = Some(z);
        }
    }
    best
}

pub fn resolve_in_catalog(zones: &[RefZone], qname: &[u8], qtype: u16, qclass: u16) -> Expect {
    match best_zone(zones, qname, qclass) {
        Some(z) => z.resolve(zones, qname, qtype),
        None => Expect { rcode: rc::REFUSED, kind: "refused".into(), ..Default::default() },
    }
}
