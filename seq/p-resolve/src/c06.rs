//! C06 — zone lookups follow RFC 1034 §4.3.2 and RFC 4592.
//!
//! Space: every zone made of at most K records from the C06 menu
//! (universe::c06_menu) for several apexes/classes; for each zone every name
//! of its closure (existing names, one and two labels below them, case
//! variants) and names outside the zone; all four LookupOptions; lookup (6
//! types), lookup_addrs, lookup_all. Oracle: refdns::RefZone.

use std::borrow::Cow;
use std::collections::BTreeMap;

use quandary::db::zone::{GluePolicy, LookupAddrsResult, LookupAllResult, LookupOptions, LookupResult, SingleRrset, Zone};
use quandary::db::HashMapTreeZone;
use quandary::name::Name;
use quandary::rr::Type;

use qvlib::enumerate::subsets_upto;
use qvlib::qd::{self, Rec};
use qvlib::wire::{self, c, wname, WName};
use qvlib::{catch, hex, json, panic_key, unhex, Ctx, Local, Value};

use crate::refdns::{Look, LookAddrs, LookAll, RRset, RefZone};
use crate::universe::{self, ZoneSpec};

#[derive(Clone, Copy, Debug, PartialEq, Eq)]
pub enum Op {
    Lookup(u16),
    Addrs,
    All,
}

impl Op {
    fn to_json(self) -> Value {
        match self {
            Op::Lookup(t) => json!({"op": "lookup", "rtype": t}),
            Op::Addrs => json!({"op": "lookup_addrs"}),
            Op::All => json!({"op": "lookup_all"}),
        }
    }
    fn from_json(v: &Value) -> Op {
        match v["op"].as_str().expect("op") {
            "lookup" => Op::Lookup(v["rtype"].as_u64().expect("rtype") as u16),
            "lookup_addrs" => Op::Addrs,
            _ => Op::All,
        }
    }
    fn short(self) -> &'static str {
        match self {
            Op::Lookup(_) => "lookup",
            Op::Addrs => "addrs",
            Op::All => "all",
        }
    }
}

// ------------------------------------------------ observations of quandary

fn norm(mut s: RRset) -> RRset {
    s.rdatas.sort();
    s
}

fn rrset_of(s: &SingleRrset) -> RRset {
    norm(RRset { ttl: u32::from(s.ttl), rdatas: s.rdatas.iter().map(|r| r.octets().to_vec()).collect() })
}

fn sos_of(o: &Option<Cow<Name>>) -> Option<WName> {
    o.as_ref().map(|n| wire::lower(&qd::wn(n)))
}

/// What lookup_addrs returned (quandary's type has a Cname variant the model
/// type does not need).
#[derive(Clone, Debug, PartialEq, Eq)]
enum ObsAddrs {
    Found { a: Option<RRset>, aaaa: Option<RRset>, sos: Option<WName> },
    Cname { rrset: RRset, sos: Option<WName> },
    Referral { cut: WName, ns: RRset },
    NxDomain,
    WrongZone,
}

fn obs_lookup(r: LookupResult) -> Look {
    match r {
        LookupResult::Found(f) => Look::Found { rrset: rrset_of(&f.data), sos: sos_of(&f.source_of_synthesis) },
        LookupResult::Cname(cn) => Look::Cname { rrset: rrset_of(&cn.rrset), sos: sos_of(&cn.source_of_synthesis) },
        LookupResult::Referral(r) => Look::Referral { cut: wire::lower(&qd::wn(&r.child_zone)), ns: rrset_of(&r.ns_rrset) },
        LookupResult::NoRecords(n) => Look::NoRecords { sos: sos_of(&n.source_of_synthesis) },
        LookupResult::NxDomain => Look::NxDomain,
        LookupResult::WrongZone => Look::WrongZone,
    }
}

fn obs_addrs(r: LookupAddrsResult) -> ObsAddrs {
    match r {
        LookupAddrsResult::Found(f) => ObsAddrs::Found {
            a: f.data.a_rrset.as_ref().map(rrset_of),
            aaaa: f.data.aaaa_rrset.as_ref().map(rrset_of),
            sos: sos_of(&f.source_of_synthesis),
        },
        LookupAddrsResult::Cname(cn) => ObsAddrs::Cname { rrset: rrset_of(&cn.rrset), sos: sos_of(&cn.source_of_synthesis) },
        LookupAddrsResult::Referral(r) => ObsAddrs::Referral { cut: wire::lower(&qd::wn(&r.child_zone)), ns: rrset_of(&r.ns_rrset) },
        LookupAddrsResult::NxDomain => ObsAddrs::NxDomain,
        LookupAddrsResult::WrongZone => ObsAddrs::WrongZone,
    }
}

/// Err = the iterator yielded the same type twice.
fn obs_all(r: LookupAllResult) -> Result<LookAll, String> {
    Ok(match r {
        LookupAllResult::Found(f) => {
            let sos = sos_of(&f.source_of_synthesis);
            let mut rrsets = BTreeMap::new();
            for s in f.data {
                let typ = u16::from(s.rr_type);
                let set = norm(RRset { ttl: u32::from(s.ttl), rdatas: s.rdatas.iter().map(|r| r.octets().to_vec()).collect() });
                if rrsets.insert(typ, set).is_some() {
                    return Err(format!("lookup_all yielded type {typ} twice"));
                }
            }
            LookAll::Found { rrsets, sos }
        }
        LookupAllResult::Referral(r) => LookAll::Referral { cut: wire::lower(&qd::wn(&r.child_zone)), ns: rrset_of(&r.ns_rrset) },
        LookupAllResult::NxDomain => LookAll::NxDomain,
        LookupAllResult::WrongZone => LookAll::WrongZone,
    })
}

// ------------------------------------------------------- normalised model

fn norm_look(l: Look) -> Look {
    match l {
        Look::Found { rrset, sos } => Look::Found { rrset: norm(rrset), sos },
        Look::Cname { rrset, sos } => Look::Cname { rrset: norm(rrset), sos },
        Look::Referral { cut, ns } => Look::Referral { cut, ns: norm(ns) },
        other => other,
    }
}

fn look_class(l: &Look) -> &'static str {
    match l {
        Look::Found { sos: None, .. } => "Found",
        Look::Found { sos: Some(_), .. } => "Found+wild",
        Look::Cname { sos: None, .. } => "Cname",
        Look::Cname { sos: Some(_), .. } => "Cname+wild",
        Look::Referral { .. } => "Referral",
        Look::NoRecords { sos: None } => "NoRecords",
        Look::NoRecords { sos: Some(_) } => "NoRecords+wild",
        Look::NxDomain => "NxDomain",
        Look::WrongZone => "WrongZone",
    }
}

fn addrs_class(l: &LookAddrs) -> String {
    match l {
        LookAddrs::Found { a, aaaa, sos, cname_present } => format!(
            "Found{}{}{}{}",
            if a.is_some() { "+A" } else { "" },
            if aaaa.is_some() { "+AAAA" } else { "" },
            if *cname_present { "+cname" } else { "" },
            if sos.is_some() { "+wild" } else { "" }
        ),
        LookAddrs::Referral { .. } => "Referral".into(),
        LookAddrs::NxDomain => "NxDomain".into(),
        LookAddrs::WrongZone => "WrongZone".into(),
    }
}

fn all_class(l: &LookAll) -> String {
    match l {
        LookAll::Found { rrsets, sos } => format!("Found{}{}", rrsets.len().min(3), if sos.is_some() { "+wild" } else { "" }),
        LookAll::Referral { .. } => "Referral".into(),
        LookAll::NxDomain => "NxDomain".into(),
        LookAll::WrongZone => "WrongZone".into(),
    }
}

// ------------------------------------------------------------ evaluation

pub struct Built {
    pub spec: ZoneSpec,
    pub zone: HashMapTreeZone,
    pub model: RefZone,
}

pub fn build(spec: ZoneSpec) -> Result<Built, String> {
    let zone = qd::build_zone(&spec.apex, spec.class, GluePolicy::Narrow, &spec.recs).map_err(|(i, e)| format!("zone.add rejected record {i}: {e}"))?;
    let model = spec.model();
    Ok(Built { spec, zone, model })
}

/// The model's verdict for (name, op, search_below_cuts); it does not depend
/// on `unchecked` for names inside the zone.
enum Exp {
    Look(Look, bool, String),
    Addrs(LookAddrs, bool, String),
    All(LookAll, bool, String),
}

fn model_eval(b: &Built, name: &[u8], op: Op, unchecked: bool, sbc: bool) -> Exp {
    let alt = |a: bool| if a { "|NxDomain" } else { "" };
    match op {
        Op::Lookup(typ) => {
            let (exp, alt_nx) = b.model.lookup(name, typ, unchecked, sbc);
            let exp = norm_look(exp);
            let res = format!("{}{}", look_class(&exp), alt(alt_nx));
            Exp::Look(exp, alt_nx, res)
        }
        Op::Addrs => {
            let (exp, alt_nx) = b.model.lookup_addrs(name, unchecked, sbc);
            let res = format!("{}{}", addrs_class(&exp), alt(alt_nx));
            Exp::Addrs(exp, alt_nx, res)
        }
        Op::All => {
            let (exp, alt_nx) = b.model.lookup_all(name, unchecked, sbc);
            let exp = match exp {
                LookAll::Found { rrsets, sos } => LookAll::Found { rrsets: rrsets.into_iter().map(|(k, v)| (k, norm(v))).collect(), sos },
                LookAll::Referral { cut, ns } => LookAll::Referral { cut, ns: norm(ns) },
                other => other,
            };
            let res = format!("{}{}", all_class(&exp), alt(alt_nx));
            Exp::All(exp, alt_nx, res)
        }
    }
}

fn class_of(op: Op, unchecked: bool, sbc: bool, res: &str) -> String {
    let mut s = String::with_capacity(24 + res.len());
    s.push_str(op.short());
    s.push_str(if unchecked { "/u1" } else { "/u0" });
    s.push_str(if sbc { "s1:" } else { "s0:" });
    s.push_str(res);
    s
}

/// Runs one lookup on quandary and compares it with the model's verdict.
/// Returns the outcome class and, on disagreement, (violation key, expected,
/// got).
fn eval_impl(b: &Built, exp: &Exp, name: &[u8], qn: &Name, op: Op, unchecked: bool, sbc: bool) -> (String, Option<(String, String, String)>) {
    let opts = LookupOptions { unchecked, search_below_cuts: sbc };
    match (op, exp) {
        (Op::Lookup(typ), Exp::Look(exp, alt_nx, res)) => {
            let class = class_of(op, unchecked, sbc, res);
            match catch(|| obs_lookup(b.zone.lookup(qn, Type::from(typ), opts))) {
                Err(p) => (class, Some((panic_key(&p), format!("{exp:?}"), format!("panic: {p}")))),
                Ok(got) => {
                    if got == *exp || (*alt_nx && got == Look::NxDomain) {
                        (class, None)
                    } else {
                        let key = format!("{}:exp={},got={}", op.short(), look_class(exp), look_class(&got));
                        (class, Some((key, format!("{exp:?}"), format!("{got:?}"))))
                    }
                }
            }
        }
        (Op::Addrs, Exp::Addrs(exp, alt_nx, res)) => {
            let class = class_of(op, unchecked, sbc, res);
            match catch(|| obs_addrs(b.zone.lookup_addrs(qn, opts))) {
                Err(p) => (class, Some((panic_key(&p), format!("{exp:?}"), format!("panic: {p}")))),
                Ok(got) => {
                    let ok = match (exp, &got) {
                        (LookAddrs::Found { a, aaaa, sos, .. }, ObsAddrs::Found { a: ga, aaaa: gaaaa, sos: gsos }) => {
                            a.clone().map(norm) == *ga && aaaa.clone().map(norm) == *gaaaa && sos == gsos
                        }
                        // The result type documents a Cname variant ("no
                        // records were found, but a CNAME record was
                        // present"); the statement does not say which of the
                        // two is returned for a CNAME owner without
                        // addresses, so both are accepted.
                        (LookAddrs::Found { a: None, aaaa: None, sos, cname_present: true }, ObsAddrs::Cname { rrset, sos: gsos }) => {
                            let node_cname = match b.model.walk(name, sbc) {
                                crate::refdns::Base::Node { node, .. } => b.model.rrset(&node, wire::t::CNAME).cloned().map(norm),
                                _ => None,
                            };
                            sos == gsos && node_cname.as_ref() == Some(rrset)
                        }
                        (LookAddrs::Referral { cut, ns }, ObsAddrs::Referral { cut: gc, ns: gn }) => cut == gc && norm(ns.clone()) == *gn,
                        (LookAddrs::NxDomain, ObsAddrs::NxDomain) => true,
                        (LookAddrs::WrongZone, ObsAddrs::WrongZone) => true,
                        _ => false,
                    } || (*alt_nx && got == ObsAddrs::NxDomain);
                    if ok {
                        (class, None)
                    } else {
                        let g = match &got {
                            ObsAddrs::Found { .. } => "Found",
                            ObsAddrs::Cname { .. } => "Cname",
                            ObsAddrs::Referral { .. } => "Referral",
                            ObsAddrs::NxDomain => "NxDomain",
                            ObsAddrs::WrongZone => "WrongZone",
                        };
                        let key = format!("addrs:exp={},got={}", addrs_class(exp), g);
                        (class, Some((key, format!("{exp:?}"), format!("{got:?}"))))
                    }
                }
            }
        }
        (Op::All, Exp::All(exp, alt_nx, res)) => {
            let class = class_of(op, unchecked, sbc, res);
            match catch(|| obs_all(b.zone.lookup_all(qn, opts))) {
                Err(p) => (class, Some((panic_key(&p), format!("{exp:?}"), format!("panic: {p}")))),
                Ok(Err(e)) => (class, Some(("all:duplicate-type".into(), format!("{exp:?}"), e))),
                Ok(Ok(got)) => {
                    if got == *exp || (*alt_nx && got == LookAll::NxDomain) {
                        (class, None)
                    } else {
                        let key = format!("all:exp={},got={}", all_class(exp), all_class(&got));
                        (class, Some((key, format!("{exp:?}"), format!("{got:?}"))))
                    }
                }
            }
        }
        _ => unreachable!("model verdict of another operation"),
    }
}

fn eval_one(b: &Built, name: &[u8], qn: &Name, op: Op, unchecked: bool, sbc: bool) -> (String, Option<(String, String, String)>) {
    let exp = model_eval(b, name, op, unchecked, sbc);
    eval_impl(b, &exp, name, qn, op, unchecked, sbc)
}

fn case_json(b: &Built, name: &[u8], op: Op, unchecked: bool, sbc: bool, exp: &str, got: &str) -> Value {
    let mut v = json!({
        "zone": b.spec.to_json(),
        "name": hex(name),
        "name_text": wire::name_text(name),
        "unchecked": unchecked,
        "search_below_cuts": sbc,
        "expected": exp,
        "got": got,
    });
    for (k, x) in op.to_json().as_object().unwrap() {
        v[k.as_str()] = x.clone();
    }
    v
}

const OPS: &[Op] = &[
    Op::Lookup(universe::C06_TYPES[0]),
    Op::Lookup(universe::C06_TYPES[1]),
    Op::Lookup(universe::C06_TYPES[2]),
    Op::Lookup(universe::C06_TYPES[3]),
    Op::Lookup(universe::C06_TYPES[4]),
    Op::Lookup(universe::C06_TYPES[5]),
    Op::Addrs,
    Op::All,
];

fn check_zone(l: &mut Local, b: &Built, outside: &[WName]) {
    let names = universe::c06_names(&b.model);
    for name in &names {
        let qn = qd::qname(name);
        for &op in OPS {
            for sbc in [false, true] {
                // In-zone name: the model's verdict is the same with and
                // without the wrong-zone check.
                let exp = model_eval(b, name, op, false, sbc);
                for unchecked in [false, true] {
                    l.tick();
                    let (class, viol) = eval_impl(b, &exp, name, &qn, op, unchecked, sbc);
                    l.outcome(&class, || case_json(b, name, op, unchecked, sbc, "", ""));
                    if let Some((key, exp, got)) = viol {
                        l.violation(&key, case_json(b, name, op, unchecked, sbc, &exp, &got));
                    }
                }
            }
        }
    }
    // Names outside the zone: only with the wrong-zone check enabled (with
    // `unchecked` the contract puts the burden on the caller).
    for name in outside {
        let qn = qd::qname(name);
        for &op in OPS {
            for sbc in [false, true] {
                l.tick();
                let (class, viol) = eval_one(b, name, &qn, op, false, sbc);
                l.outcome(&class, || case_json(b, name, op, false, sbc, "", ""));
                if let Some((key, exp, got)) = viol {
                    l.violation(&key, case_json(b, name, op, false, sbc, &exp, &got));
                }
            }
        }
    }
}

struct Family {
    name: &'static str,
    apex_text: &'static str,
    /// Apex as given to quandary (may differ in case from the owners).
    apex_given: &'static str,
    class: u16,
    k: usize,
}

pub fn run(ctx: Ctx) -> ! {
    if let Some(case) = ctx.replay_case() {
        let case = case.clone();
        replay(&ctx, &case);
        ctx.finish("exploration", "replay of one recorded case", false);
    }
    let (k_main, k_side) = ctx.pick((4, 3), (5, 4));
    let families = [
        Family { name: "t./IN", apex_text: "t.", apex_given: "t.", class: c::IN, k: k_main },
        Family { name: "s.T./IN", apex_text: "s.t.", apex_given: "s.T.", class: c::IN, k: k_side },
        Family { name: "./IN", apex_text: ".", apex_given: ".", class: c::IN, k: k_side },
        Family { name: "t./CH", apex_text: "t.", apex_given: "t.", class: c::CH, k: k_side },
    ];
    let mut total_zones = 0u64;
    for f in &families {
        let menu = universe::c06_menu(f.apex_text, f.class);
        let subsets = subsets_upto(menu.len(), f.k);
        let apex = wname(f.apex_given);
        let outside = universe::outside_names(&apex);
        total_zones += subsets.len() as u64;
        ctx.set_extra(&format!("zones[{}]", f.name), json!({"menu": menu.len(), "max_records": f.k, "zones": subsets.len(), "outside_names": outside.len()}));
        ctx.par_for_each(&subsets, |l, subset| {
            let recs: Vec<Rec> = subset.iter().map(|i| menu[*i].clone()).collect();
            let spec = ZoneSpec { apex: apex.clone(), class: f.class, recs };
            match build(spec.clone()) {
                Ok(b) => check_zone(l, &b, &outside),
                Err(e) => l.violation("harness:zone-rejected", json!({"zone": spec.to_json(), "error": e})),
            }
        });
    }
    ctx.set_extra("zones", json!(total_zones));
    ctx.assume("RDATA de-duplication inside an RRset (C19) and what the store holds after add (C20) are checked elsewhere; RDATA lists are compared as sorted lists");
    ctx.assume("names (child zone, source of synthesis) are compared ASCII-case-insensitively");
    ctx.finish(
        "exploration",
        "every zone of <= K records (K=3 quick / 4 thorough for apex t. class IN; K-1 for apexes s.T., the root and class CH) from a 54-record menu (10 owners incl. '*' labels, nested owners, empty non-terminals, a case-variant owner; types A AAAA NS CNAME TXT) x every name of the zone's closure (existing names, 1 label below over {a,b,*,q}, 2 labels below over {q,*}^2 + a.q, upper-case spellings) x lookup(6 types)/lookup_addrs/lookup_all x all 4 LookupOptions, plus names outside the zone with unchecked=false; oracle: independent flat-map model of RFC 1034 4.3.2 + RFC 4592 (refdns.rs); results compared structurally",
        true,
    );
}

fn replay(ctx: &Ctx, case: &Value) {
    let spec = ZoneSpec::from_json(&case["zone"]);
    let b = match build(spec) {
        Ok(b) => b,
        Err(e) => {
            ctx.violation("harness:zone-rejected", json!({"error": e}));
            return;
        }
    };
    let name = unhex(case["name"].as_str().expect("name"));
    let op = Op::from_json(case);
    let unchecked = case["unchecked"].as_bool().unwrap_or(false);
    let sbc = case["search_below_cuts"].as_bool().unwrap_or(false);
    let qn = qd::qname(&name);
    let mut l = ctx.local();
    l.tick();
    let (class, viol) = eval_one(&b, &name, &qn, op, unchecked, sbc);
    l.outcome(&class, || Value::Null);
    match viol {
        Some((key, exp, got)) => {
            eprintln!("replay: VIOLATION {key}\n  expected: {exp}\n  got:      {got}");
            l.violation(&key, case_json(&b, &name, op, unchecked, sbc, &exp, &got));
        }
        None => eprintln!("replay: case holds (class {class})"),
    }
}
