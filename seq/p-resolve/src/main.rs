//! p-resolve: bounded-exhaustive checks of the resolution logic.
//!
//!   C05 — query answers follow the DNS resolution algorithm (server level)
//!   C06 — zone lookups follow RFC 1034 / RFC 4592 (store level)
//!
//! Both compare quandary with the independent reference model in
//! `refdns.rs`; the input universes are described in `universe.rs`.

mod c05;
mod c06;
mod refdns;
mod universe;

fn main() {
    let ctx = qvlib::Ctx::from_args(&["C05", "C06"]);
    match ctx.id.as_str() {
        "C05" => c05::run(ctx),
        "C06" => c06::run(ctx),
        _ => unreachable!(),
    }
}
