//! C05 — query answers follow the DNS resolution algorithm.
//!
//! Every case is (catalog of zone specifications, query). The catalog is
//! loaded into a real `Server`, the query goes through
//! `Server::handle_message`, the response is decoded with the independent
//! codec and compared with `refdns::resolve_in_catalog`.

use std::collections::BTreeMap;
use std::sync::Arc;

use quandary::db::zone::GluePolicy;
use quandary::server::Server;

use qvlib::enumerate::subsets_upto;
use qvlib::qd::{self, Cat, Rec, Tp};
use qvlib::wire::{self, c, t, wname, MsgBuilder, PtrRule, WName};
use qvlib::{hex, json, panic_key, unhex, Ctx, Local, Value};

use crate::refdns::{self, CanonRr, Expect, RefZone};
use crate::universe::{self, a_rdata, aaaa_rdata, mx_rdata, soa_rdata, srv_rdata, txt_rdata, ZoneSpec};

/// Shapes of the (always well-formed) request.
#[derive(Clone, Copy, Debug, PartialEq, Eq)]
pub enum Variant {
    Udp,
    Tcp,
    UdpEdns,
    /// An ordinary A record in the additional section.
    UdpExtraAdditional,
    /// An ordinary record in the additional section followed by an OPT.
    UdpExtraAdditionalThenOpt,
    /// Records in the answer and authority sections of the query.
    TcpExtraAnswerAuthority,
}

pub const ALL_VARIANTS: &[Variant] = &[
    Variant::Udp,
    Variant::Tcp,
    Variant::UdpEdns,
    Variant::UdpExtraAdditional,
    Variant::UdpExtraAdditionalThenOpt,
    Variant::TcpExtraAnswerAuthority,
];

impl Variant {
    fn name(self) -> &'static str {
        match self {
            Variant::Udp => "udp",
            Variant::Tcp => "tcp",
            Variant::UdpEdns => "udp+edns",
            Variant::UdpExtraAdditional => "udp+extra-ar",
            Variant::UdpExtraAdditionalThenOpt => "udp+extra-ar+opt",
            Variant::TcpExtraAnswerAuthority => "tcp+extra-an-ns",
        }
    }
    fn from_name(s: &str) -> Variant {
        *ALL_VARIANTS.iter().find(|v| v.name() == s).expect("unknown request variant")
    }
    fn tp(self) -> Tp {
        match self {
            Variant::Tcp | Variant::TcpExtraAnswerAuthority => Tp::Tcp,
            _ => Tp::Udp,
        }
    }
}

#[derive(Clone, Debug)]
pub struct Query {
    pub qname: WName,
    pub qtype: u16,
    pub qclass: u16,
    pub variant: Variant,
}

impl Query {
    fn to_json(&self) -> Value {
        json!({
            "qname": hex(&self.qname), "qname_text": wire::name_text(&self.qname),
            "qtype": self.qtype, "qclass": self.qclass, "variant": self.variant.name(),
        })
    }
    fn from_json(v: &Value) -> Query {
        Query {
            qname: unhex(v["qname"].as_str().expect("qname")),
            qtype: v["qtype"].as_u64().expect("qtype") as u16,
            qclass: v["qclass"].as_u64().expect("qclass") as u16,
            variant: Variant::from_name(v["variant"].as_str().expect("variant")),
        }
    }
    fn request(&self) -> Vec<u8> {
        let extra_owner = wname("extra.example.");
        let b = MsgBuilder::query(0x1234).question(&self.qname, self.qtype, self.qclass);
        match self.variant {
            Variant::Udp | Variant::Tcp => b.build(),
            Variant::UdpEdns => b.opt(4096, 0, 0, 0, &[]).build(),
            Variant::UdpExtraAdditional => b.rr(3, &extra_owner, t::A, c::IN, 60, &[192, 0, 2, 200]).build(),
            Variant::UdpExtraAdditionalThenOpt => b.rr(3, &extra_owner, t::A, c::IN, 60, &[192, 0, 2, 200]).opt(4096, 0, 0, 0, &[]).build(),
            Variant::TcpExtraAnswerAuthority => b
                .rr(1, &extra_owner, t::A, c::IN, 60, &[192, 0, 2, 201])
                .rr(2, &extra_owner, t::NS, c::IN, 60, &wname("ns.example."))
                .build(),
        }
    }
}

pub struct Loaded {
    pub specs: Vec<ZoneSpec>,
    pub models: Vec<RefZone>,
    pub server: Server<Cat>,
    /// How the catalog reached its contents (see `load_hist`).
    pub history: u8,
}

pub fn load(specs: Vec<ZoneSpec>) -> Result<Loaded, String> {
    load_hist(specs, 0)
}

/// `history` 0: the zones are inserted into an empty catalog. 1 / 2: after
/// that, a not-yet-loaded entry one / two labels below the first zone's apex
/// is inserted and removed again - the same catalog contents reached through
/// a longer history (removal prunes tree nodes next to and above live
/// entries). 3: the records of every zone are added in the reverse order
/// (RRsets, and the nodes of the tree, are built in another order). The
/// expected answers are the same.
pub fn load_hist(specs: Vec<ZoneSpec>, history: u8) -> Result<Loaded, String> {
    let mut zones = Vec::new();
    let mut models = Vec::new();
    for s in &specs {
        let recs: Vec<_> = if history == 3 { s.recs.iter().rev().cloned().collect() } else { s.recs.clone() };
        zones.push(qd::build_zone(&s.apex, s.class, GluePolicy::Narrow, &recs).map_err(|(i, e)| format!("zone.add rejected record {i}: {e}"))?);
        models.push(s.model());
    }
    let mut catalog = qd::catalog_of(zones);
    if history == 1 || history == 2 {
        if let Some(first) = specs.first() {
            let mut name = wire::child(b"removed", &first.apex);
            if history > 1 {
                name = wire::child(b"a", &name);
            }
            if name.len() <= 255 {
                let class = quandary::class::Class::from(first.class);
                catalog.insert(quandary::db::catalog::Entry::NotYetLoaded(qd::qname(&name), class, ()));
                catalog.remove(&qd::qname(&name), class);
            }
        }
    }
    let server = Server::new(Arc::new(catalog));
    Ok(Loaded { specs, models, server, history })
}

fn case_json(ld: &Loaded, q: &Query, exp: &Expect, detail: &str, response: Option<&[u8]>) -> Value {
    json!({
        "catalog": ld.specs.iter().map(|s| s.to_json()).collect::<Vec<_>>(),
        "catalog_history": ld.history,
        "query": q.to_json(),
        "request": hex(&q.request()),
        "expected": format!("{exp:?}"),
        "mismatch": detail,
        "response": response.map(hex),
    })
}

fn text_rr(r: &CanonRr) -> String {
    format!("{} {} class{} type{} {}", wire::name_text(&r.0), r.3, r.2, r.1, hex(&r.4))
}

/// Compares the response with the model. Ok(outcome class) or
/// Err((violation key, detail)).
fn compare(exp: &Expect, resp: &[u8]) -> Result<String, (String, String)> {
    let m = wire::decode_message(resp, PtrRule::BeforePointer, false).map_err(|e| ("undecodable-response".to_string(), e))?;
    let h = &m.header;
    if !h.qr || h.opcode != 0 || h.id != 0x1234 {
        return Err(("header".into(), format!("qr={} opcode={} id={:#x}", h.qr, h.opcode, h.id)));
    }
    if h.tc {
        return Err(("unexpected-truncation".into(), "TC set on a response that fits easily".into()));
    }
    let rcode = m.ext_rcode();
    let kind = &exp.kind;
    if rcode != exp.rcode as u16 {
        return Err((format!("rcode:exp={},got={}", exp.rcode, rcode), format!("model path {kind}")));
    }
    if h.aa != exp.aa {
        return Err((format!("aa:exp={},got={}", exp.aa as u8, h.aa as u8), format!("model path {kind}")));
    }
    for (sec, got, want) in [("answer", &m.answers, &exp.answer), ("authority", &m.authority, &exp.authority)] {
        let got = wire::sorted(got.iter().map(wire::canon_rr).collect::<Vec<_>>());
        let want = wire::sorted(want.clone());
        if got != want {
            let missing: Vec<String> = want.iter().filter(|r| !got.contains(r)).map(text_rr).collect();
            let surplus: Vec<String> = got.iter().filter(|r| !want.contains(r)).map(text_rr).collect();
            let what = if got.len() != want.len() { "count" } else { "content" };
            return Err((format!("{sec}:{what}"), format!("model path {kind}; missing {missing:?}; unexpected {surplus:?}; got {} RRs, expected {}", got.len(), want.len())));
        }
    }
    let mut counts: BTreeMap<CanonRr, u32> = BTreeMap::new();
    for r in m.additional_data() {
        *counts.entry(wire::canon_rr(r)).or_insert(0) += 1;
    }
    for (r, n) in &counts {
        match exp.additional.get(r) {
            None => return Err(("additional:unexpected".into(), format!("model path {kind}; unexpected {}", text_rr(r)))),
            Some((_, max)) if n > max => return Err(("additional:duplicate".into(), format!("model path {kind}; {} occurs {n} times, at most {max} expected", text_rr(r)))),
            _ => {}
        }
    }
    let mut optional_seen = 0;
    for (r, (min, _)) in &exp.additional {
        let n = counts.get(r).copied().unwrap_or(0);
        if n < *min {
            return Err(("additional:missing".into(), format!("model path {kind}; missing {}", text_rr(r))));
        }
        if *min == 0 && n > 0 {
            optional_seen += 1;
        }
    }
    let cap = |n: usize| if n >= 3 { "3+".to_string() } else { n.to_string() };
    Ok(format!(
        "rcode={},aa={},an={},ns={},ar={}{} {}",
        rcode,
        h.aa as u8,
        cap(m.answers.len()),
        cap(m.authority.len()),
        cap(counts.values().sum::<u32>() as usize),
        if optional_seen > 0 { "(opt)" } else { "" },
        kind
    ))
}

/// Runs one query. Returns the outcome class and an optional violation.
fn eval_query(ld: &Loaded, q: &Query) -> (String, Option<(String, Value)>) {
    let exp = refdns::resolve_in_catalog(&ld.models, &q.qname, q.qtype, q.qclass);
    let req = q.request();
    match qd::handle(&ld.server, &req, qd::localhost(), q.variant.tp()) {
        Err(p) => ("panic".into(), Some((panic_key(&p), case_json(ld, q, &exp, &format!("panic: {p}"), None)))),
        Ok(None) => ("no-response".into(), Some(("no-response".into(), case_json(ld, q, &exp, "no response", None)))),
        Ok(Some(resp)) => match compare(&exp, &resp) {
            Ok(class) => (class, None),
            Err((key, detail)) => (format!("mismatch:{key}"), Some((key, case_json(ld, q, &exp, &detail, Some(&resp))))),
        },
    }
}

fn run_queries<I: IntoIterator<Item = Query>>(l: &mut Local, ld: &Loaded, tag: &str, queries: I) {
    for q in queries {
        l.tick();
        let (class, viol) = eval_query(ld, &q);
        l.outcome(&format!("{tag}{}{}", if tag.is_empty() { "" } else { " " }, class), || json!({"catalog": ld.specs.iter().map(|s| s.to_json()).collect::<Vec<_>>(), "query": q.to_json()}));
        if let Some((key, case)) = viol {
            l.violation(&key, case);
        }
    }
}

/// The query universe of a catalog: for every zone the names of its closure
/// x all QTYPEs, upper-case spellings x {A, NS, ANY}, and two names outside
/// every zone; each in the zone's class.
fn queries_for(ld: &Loaded, variants: &[Variant]) -> Vec<Query> {
    let mut out = Vec::new();
    for m in &ld.models {
        let (names, uppers) = universe::c05_names(m);
        for v in variants {
            for n in &names {
                for qt in universe::C05_QTYPES {
                    out.push(Query { qname: n.clone(), qtype: *qt, qclass: m.class, variant: *v });
                }
            }
            for n in &uppers {
                for qt in [t::A, t::NS, t::ANY] {
                    out.push(Query { qname: n.clone(), qtype: qt, qclass: m.class, variant: *v });
                }
            }
        }
    }
    // Outside every zone of the catalog (REFUSED), and a class no zone has.
    let cls = ld.models.first().map(|m| m.class).unwrap_or(c::IN);
    for v in variants {
        for n in ["zz.", "q.zz."] {
            out.push(Query { qname: wname(n), qtype: t::A, qclass: cls, variant: *v });
        }
        if let Some(m) = ld.models.first() {
            out.push(Query { qname: m.apex.clone(), qtype: t::SOA, qclass: 65280, variant: *v });
        }
    }
    out
}

// ---------------------------------------------------------------------
// Structured families (what the subset bound cannot reach)
// ---------------------------------------------------------------------

fn rec(owner: &str, typ: u16, class: u16, ttl: u32, rd: &[u8]) -> Rec {
    Rec::new(&wname(owner), typ, class, ttl, rd)
}

fn base_zone(class: u16, soa_ttl: u32, minimum: u32) -> Vec<Rec> {
    vec![
        rec("t.", t::SOA, class, soa_ttl, &soa_rdata("t.", 1, minimum)),
        rec("t.", t::NS, class, 50, &wname("ns.u.")),
    ]
}

fn chain_name(i: usize) -> String {
    format!("c{i}.t.")
}

/// Ways a CNAME chain can end.
const TERMINALS: &[&str] = &["a", "nodata", "nxdomain", "wild", "wild-nodata", "ent", "below-cut", "at-cut", "out", "out-loaded", "child-loaded", "mx", "apex"];

/// Zone with the chain c1 -> c2 -> ... -> c<links> -> <terminal target>
/// (`links` CNAME records), optionally entered through a wildcard.
fn chain_catalog(links: usize, terminal: &str, via_wildcard: bool) -> Vec<ZoneSpec> {
    let cl = c::IN;
    let mut recs = base_zone(cl, 3, 5);
    let mut extra_zones = Vec::new();
    let target: WName = match terminal {
        "a" => {
            recs.push(rec("end.t.", t::A, cl, 30, &a_rdata(1)));
            recs.push(rec("end.t.", t::A, cl, 30, &a_rdata(2)));
            wname("end.t.")
        }
        "mx" => {
            recs.push(rec("end.t.", t::MX, cl, 30, &mx_rdata(5, &wname("h.t."))));
            recs.push(rec("h.t.", t::A, cl, 31, &a_rdata(3)));
            recs.push(rec("h.t.", t::AAAA, cl, 32, &aaaa_rdata(3)));
            wname("end.t.")
        }
        "nodata" => {
            recs.push(rec("end.t.", t::TXT, cl, 30, &txt_rdata(b"x")));
            wname("end.t.")
        }
        "nxdomain" => wname("nx.t."),
        "wild" => {
            recs.push(rec("*.w.t.", t::A, cl, 33, &a_rdata(4)));
            wname("q.w.t.")
        }
        "wild-nodata" => {
            recs.push(rec("*.w.t.", t::TXT, cl, 33, &txt_rdata(b"w")));
            wname("q.w.t.")
        }
        "ent" => {
            recs.push(rec("x.ent.t.", t::A, cl, 30, &a_rdata(5)));
            wname("ent.t.")
        }
        "below-cut" | "at-cut" => {
            recs.push(rec("d.t.", t::NS, cl, 40, &wname("ns.d.t.")));
            recs.push(rec("d.t.", t::NS, cl, 40, &wname("ns.e.t.")));
            recs.push(rec("d.t.", t::NS, cl, 40, &wname("ns.t.")));
            recs.push(rec("ns.d.t.", t::A, cl, 41, &a_rdata(6)));
            recs.push(rec("ns.d.t.", t::AAAA, cl, 42, &aaaa_rdata(6)));
            recs.push(rec("e.t.", t::NS, cl, 43, &wname("ns.e.t.")));
            recs.push(rec("ns.e.t.", t::A, cl, 44, &a_rdata(7)));
            recs.push(rec("ns.t.", t::A, cl, 45, &a_rdata(8)));
            if terminal == "at-cut" {
                wname("d.t.")
            } else {
                wname("h.d.t.")
            }
        }
        "out" => wname("x.u."),
        "out-loaded" => {
            extra_zones.push(ZoneSpec {
                apex: wname("u."),
                class: cl,
                recs: vec![
                    rec("u.", t::SOA, cl, 9, &soa_rdata("u.", 1, 9)),
                    rec("u.", t::NS, cl, 9, &wname("ns.u.")),
                    rec("ns.u.", t::A, cl, 9, &a_rdata(20)),
                    rec("x.u.", t::A, cl, 9, &a_rdata(21)),
                ],
            });
            wname("x.u.")
        }
        "child-loaded" => {
            recs.push(rec("k.t.", t::NS, cl, 40, &wname("ns.k.t.")));
            recs.push(rec("ns.k.t.", t::A, cl, 41, &a_rdata(9)));
            extra_zones.push(ZoneSpec {
                apex: wname("k.t."),
                class: cl,
                recs: vec![
                    rec("k.t.", t::SOA, cl, 8, &soa_rdata("k.t.", 1, 2)),
                    rec("k.t.", t::NS, cl, 8, &wname("ns.k.t.")),
                    rec("ns.k.t.", t::A, cl, 8, &a_rdata(9)),
                    rec("x.k.t.", t::A, cl, 8, &a_rdata(22)),
                    rec("x.k.t.", t::MX, cl, 8, &mx_rdata(1, &wname("ns.k.t."))),
                ],
            });
            wname("x.k.t.")
        }
        "apex" => wname("T."),
        other => panic!("unknown terminal {other}"),
    };
    for i in 1..=links {
        let owner = if i == 1 && via_wildcard { "*.v.t.".to_string() } else { chain_name(i) };
        let tgt = if i == links { target.clone() } else { wname(&chain_name(i + 1)) };
        recs.push(rec(&owner, t::CNAME, cl, 20 + i as u32, &tgt));
    }
    let mut cat = vec![ZoneSpec { apex: wname("t."), class: cl, recs }];
    cat.extend(extra_zones);
    cat
}

/// Zone with a prefix of `prefix` CNAMEs p1 -> ... -> p<prefix> -> l1 and a
/// loop l1 -> l2 -> ... -> l<len> -> l1.
fn loop_catalog(prefix: usize, len: usize, mixed_case: bool) -> Vec<ZoneSpec> {
    let cl = c::IN;
    let mut recs = base_zone(cl, 3, 5);
    let l = |i: usize| format!("l{i}.t.");
    for i in 1..=prefix {
        let tgt = if i == prefix { l(1) } else { format!("p{}.t.", i + 1) };
        recs.push(rec(&format!("p{i}.t."), t::CNAME, cl, 20, &wname(&tgt)));
    }
    for i in 1..=len {
        let mut tgt = wname(&l(if i == len { 1 } else { i + 1 }));
        if mixed_case {
            tgt = universe::upper(&tgt);
        }
        recs.push(rec(&l(i), t::CNAME, cl, 21, &tgt));
    }
    vec![ZoneSpec { apex: wname("t."), class: cl, recs }]
}

/// A wildcard CNAME whose target is covered by the same wildcard.
fn wildcard_loop_catalog() -> Vec<ZoneSpec> {
    let cl = c::IN;
    let mut recs = base_zone(cl, 3, 5);
    recs.push(rec("*.w.t.", t::CNAME, cl, 20, &wname("q.w.t.")));
    recs.push(rec("*.v.t.", t::CNAME, cl, 20, &wname("x.y.v.t.")));
    vec![ZoneSpec { apex: wname("t."), class: cl, recs }]
}

const SOA_TTLS: &[u32] = &[0, 1, 3, 5, 300, 0x7fff_ffff];
const SOA_MINIMUMS: &[u32] = &[0, 1, 3, 5, 300, 0x7fff_ffff, 0x8000_0000, 0xffff_ffff];

fn soa_catalog(ttl: u32, minimum: u32) -> Vec<ZoneSpec> {
    let cl = c::IN;
    let mut recs = base_zone(cl, ttl, minimum);
    recs.push(rec("a.t.", t::A, cl, 30, &a_rdata(1)));
    recs.push(rec("x.ent.t.", t::A, cl, 30, &a_rdata(2)));
    recs.push(rec("*.w.t.", t::TXT, cl, 30, &txt_rdata(b"w")));
    recs.push(rec("cn.t.", t::CNAME, cl, 30, &wname("nx.t.")));
    recs.push(rec("cd.t.", t::CNAME, cl, 30, &wname("a.t.")));
    vec![ZoneSpec { apex: wname("t."), class: cl, recs }]
}

/// A zone exercising additional-section processing and referrals in class
/// `class` (A RDATA is class specific).
fn class_catalog(class: u16) -> Vec<ZoneSpec> {
    let addr = |k: u8| -> Vec<u8> {
        if class == c::CH {
            let mut v = wname("host.t.");
            v.extend_from_slice(&[0, k]);
            v
        } else {
            a_rdata(k)
        }
    };
    let mut recs = vec![
        rec("t.", t::SOA, class, 3, &soa_rdata("t.", 1, 5)),
        rec("t.", t::NS, class, 50, &wname("ns.t.")),
        rec("t.", t::NS, class, 50, &wname("ns.d.t.")),
        rec("t.", t::NS, class, 50, &wname("ns.u.")),
        rec("t.", t::MX, class, 51, &mx_rdata(10, &wname("mail.t."))),
        rec("t.", t::MX, class, 51, &mx_rdata(20, &wname("mail.t."))),
        rec("t.", t::MX, class, 51, &mx_rdata(30, &wname("syn.w.t."))),
        rec("ns.t.", t::A, class, 52, &addr(1)),
        rec("ns.t.", t::AAAA, class, 53, &aaaa_rdata(1)),
        rec("mail.t.", t::A, class, 54, &addr(2)),
        rec("mail.t.", t::A, class, 54, &addr(3)),
        rec("mail.t.", t::AAAA, class, 55, &aaaa_rdata(2)),
        rec("*.w.t.", t::A, class, 56, &addr(4)),
        rec("d.t.", t::NS, class, 57, &wname("ns.d.t.")),
        rec("d.t.", t::NS, class, 57, &wname("NS.T.")),
        rec("d.t.", t::NS, class, 57, &wname("ns.e.t.")),
        rec("d.t.", t::NS, class, 57, &wname("ns.u.")),
        rec("ns.d.t.", t::A, class, 58, &addr(5)),
        rec("ns.d.t.", t::AAAA, class, 59, &aaaa_rdata(5)),
        rec("e.t.", t::NS, class, 60, &wname("ns.e.t.")),
        rec("ns.e.t.", t::A, class, 61, &addr(6)),
        rec("mb.t.", t::MB, class, 62, &wname("mail.t.")),
        rec("md.t.", t::MD, class, 62, &wname("mail.t.")),
        rec("mf.t.", t::MF, class, 62, &wname("ns.t.")),
        rec("mg.t.", t::MG, class, 62, &wname("mail.t.")),
        rec("ptr.t.", t::PTR, class, 62, &wname("mail.t.")),
    ];
    if class == c::IN {
        recs.push(rec("_s._tcp.t.", t::SRV, class, 63, &srv_rdata(80, &wname("mail.t."))));
        recs.push(rec("_s._tcp.t.", t::SRV, class, 63, &srv_rdata(81, &wname("ns.d.t."))));
    }
    vec![ZoneSpec { apex: wname("t."), class, recs }]
}

/// Nested and sibling zones in one catalog, with proper delegations.
fn nested_catalog() -> Vec<ZoneSpec> {
    let cl = c::IN;
    let mut parent = base_zone(cl, 3, 5);
    parent.push(rec("k.t.", t::NS, cl, 40, &wname("ns.k.t.")));
    parent.push(rec("ns.k.t.", t::A, cl, 41, &a_rdata(9)));
    parent.push(rec("a.t.", t::A, cl, 30, &a_rdata(1)));
    parent.push(rec("to-k.t.", t::CNAME, cl, 30, &wname("x.k.t.")));
    parent.push(rec("to-u.t.", t::CNAME, cl, 30, &wname("x.u.")));
    let child = vec![
        rec("k.t.", t::SOA, cl, 8, &soa_rdata("k.t.", 1, 2)),
        rec("k.t.", t::NS, cl, 8, &wname("ns.k.t.")),
        rec("ns.k.t.", t::A, cl, 8, &a_rdata(9)),
        rec("x.k.t.", t::A, cl, 8, &a_rdata(22)),
        rec("up.k.t.", t::CNAME, cl, 8, &wname("a.t.")),
        rec("j.k.t.", t::NS, cl, 8, &wname("ns.j.k.t.")),
        rec("ns.j.k.t.", t::A, cl, 8, &a_rdata(23)),
    ];
    let grandchild = vec![
        rec("j.k.t.", t::SOA, cl, 7, &soa_rdata("j.k.t.", 1, 9)),
        rec("j.k.t.", t::NS, cl, 7, &wname("ns.j.k.t.")),
        rec("ns.j.k.t.", t::A, cl, 7, &a_rdata(23)),
        rec("*.j.k.t.", t::TXT, cl, 7, &txt_rdata(b"j")),
    ];
    let sibling = vec![
        rec("u.", t::SOA, cl, 9, &soa_rdata("u.", 1, 9)),
        rec("u.", t::NS, cl, 9, &wname("ns.u.")),
        rec("ns.u.", t::A, cl, 9, &a_rdata(20)),
        rec("x.u.", t::A, cl, 9, &a_rdata(21)),
    ];
    let ch = vec![
        rec("t.", t::SOA, c::CH, 4, &soa_rdata("t.", 1, 1)),
        rec("t.", t::NS, c::CH, 4, &wname("ns.u.")),
        rec("a.t.", t::TXT, c::CH, 4, &txt_rdata(b"chaos")),
    ];
    vec![
        ZoneSpec { apex: wname("t."), class: cl, recs: parent },
        ZoneSpec { apex: wname("K.t."), class: cl, recs: child },
        ZoneSpec { apex: wname("j.k.t."), class: cl, recs: grandchild },
        ZoneSpec { apex: wname("u."), class: cl, recs: sibling },
        ZoneSpec { apex: wname("t."), class: c::CH, recs: ch },
    ]
}

/// Delegations one, two and three labels below the apex, with in-bailiwick
/// glue at and below the cut (the glue search must ignore cuts at any depth),
/// sibling glue below another deep cut, and an in-zone server at depth.
fn deep_cut_catalog() -> Vec<ZoneSpec> {
    let cl = c::IN;
    let mut recs = base_zone(cl, 3, 5);
    recs.push(rec("d1.t.", t::NS, cl, 40, &wname("ns.d1.t.")));
    recs.push(rec("ns.d1.t.", t::A, cl, 41, &a_rdata(1)));
    recs.push(rec("d2.e.t.", t::NS, cl, 42, &wname("ns.d2.e.t.")));
    recs.push(rec("d2.e.t.", t::NS, cl, 42, &wname("ns.x.d2.e.t.")));
    recs.push(rec("d2.e.t.", t::NS, cl, 42, &wname("ns.d3.f.e.t."))); // sibling glue below another deep cut
    recs.push(rec("d2.e.t.", t::NS, cl, 42, &wname("h.g.e.t."))); // in-zone server at depth
    recs.push(rec("ns.d2.e.t.", t::A, cl, 43, &a_rdata(2)));
    recs.push(rec("ns.x.d2.e.t.", t::AAAA, cl, 44, &aaaa_rdata(3)));
    recs.push(rec("d3.f.e.t.", t::NS, cl, 45, &wname("NS.d3.f.e.t.")));
    recs.push(rec("ns.d3.f.e.t.", t::A, cl, 46, &a_rdata(4)));
    recs.push(rec("ns.d3.f.e.t.", t::AAAA, cl, 47, &aaaa_rdata(4)));
    recs.push(rec("h.g.e.t.", t::A, cl, 48, &a_rdata(5)));
    // a delegation whose name server is the delegation point itself (glue at
    // the cut), one and two labels below the apex
    recs.push(rec("self.t.", t::NS, cl, 50, &wname("self.t.")));
    recs.push(rec("self.t.", t::A, cl, 51, &a_rdata(6)));
    recs.push(rec("self.e.t.", t::NS, cl, 52, &wname("SELF.e.t.")));
    recs.push(rec("self.e.t.", t::AAAA, cl, 53, &aaaa_rdata(7)));
    recs.push(rec("mx.t.", t::MX, cl, 49, &mx_rdata(1, &wname("h.g.e.t."))));
    recs.push(rec("mx.t.", t::MX, cl, 49, &mx_rdata(2, &wname("ns.d2.e.t.")))); // target below a cut
    vec![ZoneSpec { apex: wname("t."), class: cl, recs }]
}

/// A root zone (the apex has no labels).
fn root_catalog() -> Vec<ZoneSpec> {
    let cl = c::IN;
    let recs = vec![
        rec(".", t::SOA, cl, 3, &soa_rdata(".", 1, 5)),
        rec(".", t::NS, cl, 50, &wname("ns.")),
        rec("ns.", t::A, cl, 51, &a_rdata(1)),
        rec("t.", t::NS, cl, 52, &wname("ns.t.")),
        rec("ns.t.", t::A, cl, 53, &a_rdata(2)),
        rec("*.", t::TXT, cl, 54, &txt_rdata(b"root wildcard")),
        rec("c.", t::CNAME, cl, 55, &wname("ns.")),
    ];
    vec![ZoneSpec { apex: wname("."), class: cl, recs }]
}

struct Structured {
    tag: String,
    catalog: Vec<ZoneSpec>,
}

fn structured_catalogs() -> Vec<Structured> {
    let mut out = Vec::new();
    for links in 1..=10 {
        for term in TERMINALS {
            for via in [false, true] {
                out.push(Structured { tag: "chain".into(), catalog: chain_catalog(links, term, via) });
            }
        }
    }
    for prefix in 0..=8 {
        for len in 1..=4 {
            for mixed in [false, true] {
                out.push(Structured { tag: "loop".into(), catalog: loop_catalog(prefix, len, mixed) });
            }
        }
    }
    out.push(Structured { tag: "loop".into(), catalog: wildcard_loop_catalog() });
    for ttl in SOA_TTLS {
        for min in SOA_MINIMUMS {
            out.push(Structured { tag: "soa".into(), catalog: soa_catalog(*ttl, *min) });
        }
    }
    for class in [c::IN, c::CH, c::HS, 65280] {
        out.push(Structured { tag: format!("class{class}"), catalog: class_catalog(class) });
    }
    out.push(Structured { tag: "nested".into(), catalog: nested_catalog() });
    out.push(Structured { tag: "root".into(), catalog: root_catalog() });
    out.push(Structured { tag: "deep-cuts".into(), catalog: deep_cut_catalog() });
    out
}

// ---------------------------------------------------------------------

pub fn run(ctx: Ctx) -> ! {
    if let Some(case) = ctx.replay_case() {
        let case = case.clone();
        replay(&ctx, &case);
        ctx.finish("exploration", "replay of one recorded case", false);
    }

    // Family 1: every zone = base + at most K menu records.
    let k = ctx.pick(4, 5);
    let menu = universe::c05_menu();
    let subsets = subsets_upto(menu.len(), k);
    let apex = wname(universe::C05_APEX);
    let skipped = std::sync::atomic::AtomicU64::new(0);
    let evaluated = std::sync::atomic::AtomicU64::new(0);
    ctx.par_for_each(&subsets, |l, subset| {
        let mut recs = universe::c05_base(c::IN);
        recs.extend(subset.iter().map(|i| menu[*i].clone()));
        let spec = ZoneSpec { apex: apex.clone(), class: c::IN, recs };
        if spec.model().c05_defined().is_err() {
            skipped.fetch_add(1, std::sync::atomic::Ordering::Relaxed);
            return;
        }
        evaluated.fetch_add(1, std::sync::atomic::Ordering::Relaxed);
        // Zones of at most two menu records are also served from a catalog
        // that went through an insertion and removal below the apex.
        let histories: &[u8] = if subset.len() <= 2 { &[0, 1, 3] } else { &[0, 3] };
        for &h in histories {
            match load_hist(vec![spec.clone()], h) {
                Ok(ld) => {
                    let qs = queries_for(&ld, &[Variant::Udp]);
                    run_queries(l, &ld, ["", "via-removal ", "via-removal ", "reverse-order "][h as usize], qs);
                }
                Err(e) => l.violation("harness:zone-rejected", json!({"zone": spec.to_json(), "error": e})),
            }
        }
    });
    ctx.set_extra(
        "subset_family",
        json!({
            "menu_records": menu.len(), "max_records": k, "subsets": subsets.len(),
            "zones_evaluated": evaluated.load(std::sync::atomic::Ordering::Relaxed),
            "zones_outside_statement_skipped": skipped.load(std::sync::atomic::Ordering::Relaxed),
        }),
    );

    // Family 2: structured catalogs x all request variants.
    let structured = structured_catalogs();
    ctx.set_extra("structured_catalogs", json!(structured.len()));
    ctx.par_for_each(&structured, |l, s| {
        for z in &s.catalog {
            if let Err(e) = z.model().c05_defined() {
                l.violation("harness:structured-zone-undefined", json!({"zone": z.to_json(), "error": e}));
                return;
            }
        }
        for h in [0u8, 1, 2, 3] {
            match load_hist(s.catalog.clone(), h) {
                Ok(ld) => {
                    let qs = queries_for(&ld, if h == 0 { ALL_VARIANTS } else { &[Variant::Udp] });
                    run_queries(l, &ld, &s.tag, qs);
                }
                Err(e) => l.violation("harness:zone-rejected", json!({"catalog": s.catalog.iter().map(|z| z.to_json()).collect::<Vec<_>>(), "error": e})),
            }
        }
    });

    ctx.assume("zones outside the statement (CNAME next to other data, several CNAMEs, NS at a wildcard, no SOA) are not generated into the compared space (DESIGN.md 7a)");
    ctx.assume("additional section: addresses of targets in the zone's authoritative data (wildcard synthesis included) and in-bailiwick referral glue are required; glue for targets below a cut in authoritative answers, sibling glue in referrals, AAAA outside class IN and all additional data in classes other than IN/CH are accepted present or absent; an RR may repeat once per RDATA naming its owner");
    ctx.assume("responses are small (no truncation; C04 covers size limits)");
    ctx.finish(
        "exploration",
        "family 1: apex t. with SOA(TTL 3, MINIMUM 5)+NS plus every subset of <= K (4 quick / 5 thorough) records of a 49-record menu (10 owners incl. wildcards, nested names, ENTs; A AAAA TXT NS CNAME MX SRV with in-zone, below-cut, out-of-zone, mixed-case, nonexistent targets), zones outside the statement dropped, x every QNAME of the zone's closure (existing names, RDATA targets, q/*/q.q below each, upper-case spellings) x 10 QTYPEs (A AAAA NS CNAME MX TXT SOA SRV ANY TYPE65280) + names outside the catalog; family 2: structured catalogs (CNAME chains of 1..10 links x 13 endings x entered directly / through a wildcard; loops of length 1..4 after 0..8 links; SOA TTL x MINIMUM grid incl. >= 2^31; classes IN CH HS 65280; nested/sibling/root zones) x 6 well-formed request shapes (UDP, TCP, EDNS, extra records in answer/authority/additional); the structured catalogs and the zones of <= 2 menu records also from a catalog that went through the insertion and removal of an entry below the first apex, and every zone also with its records added in the reverse order; each through Server::handle_message, response decoded by the independent codec and RCODE, AA, answer, authority (exact multisets, names case-insensitive) and additional (required/optional sets) compared with the reference resolver refdns.rs",
        true,
    );
}

fn replay(ctx: &Ctx, case: &Value) {
    let specs: Vec<ZoneSpec> = case["catalog"].as_array().expect("catalog").iter().map(ZoneSpec::from_json).collect();
    let q = Query::from_json(&case["query"]);
    let ld = match load_hist(specs, case["catalog_history"].as_u64().unwrap_or(0) as u8) {
        Ok(ld) => ld,
        Err(e) => {
            ctx.violation("harness:zone-rejected", json!({"error": e}));
            return;
        }
    };
    let mut l = ctx.local();
    l.tick();
    let (class, viol) = eval_query(&ld, &q);
    l.outcome(&class, || Value::Null);
    match viol {
        Some((key, case)) => {
            eprintln!("replay: VIOLATION {key}\n  expected: {}\n  mismatch: {}\n  response: {}", case["expected"], case["mismatch"], case["response"]);
            l.violation(&key, case);
        }
        None => eprintln!("replay: case holds (class {class})"),
    }
}
