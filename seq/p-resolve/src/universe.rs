//! Shared input universe: zone specifications (plain record lists), the
//! record menus the subset enumerations draw from, name closures, and JSON
//! (de)serialisation of cases for replay files.

use std::collections::BTreeSet;

use qvlib::qd::Rec;
use qvlib::wire::{self, c, t, wname, WName};
use qvlib::{hex, json, unhex, Value};

use crate::refdns::RefZone;

#[derive(Clone, Debug, PartialEq, Eq)]
pub struct ZoneSpec {
    /// As given to quandary (case preserved).
    pub apex: WName,
    pub class: u16,
    pub recs: Vec<Rec>,
}

impl ZoneSpec {
    pub fn to_json(&self) -> Value {
        json!({
            "apex": hex(&self.apex),
            "apex_text": wire::name_text(&self.apex),
            "class": self.class,
            "recs": self.recs.iter().map(rec_to_json).collect::<Vec<_>>(),
        })
    }
    pub fn from_json(v: &Value) -> ZoneSpec {
        ZoneSpec {
            apex: unhex(v["apex"].as_str().expect("apex")),
            class: v["class"].as_u64().expect("class") as u16,
            recs: v["recs"].as_array().expect("recs").iter().map(rec_from_json).collect(),
        }
    }
    pub fn model(&self) -> RefZone {
        RefZone::build(&self.apex, self.class, &self.recs).expect("generator produced an inconsistent zone")
    }
}

pub fn rec_to_json(r: &Rec) -> Value {
    json!({
        "owner": hex(&r.owner),
        "owner_text": wire::name_text(&r.owner),
        "type": r.typ, "class": r.class, "ttl": r.ttl,
        "rdata": hex(&r.rdata),
    })
}

pub fn rec_from_json(v: &Value) -> Rec {
    Rec {
        owner: unhex(v["owner"].as_str().expect("owner")),
        typ: v["type"].as_u64().expect("type") as u16,
        class: v["class"].as_u64().expect("class") as u16,
        ttl: v["ttl"].as_u64().expect("ttl") as u32,
        rdata: unhex(v["rdata"].as_str().expect("rdata")),
    }
}

/// `rel` relative to `apex_text` ("@" = the apex itself).
pub fn nm(rel: &str, apex_text: &str) -> WName {
    if rel == "@" {
        wname(apex_text)
    } else if apex_text == "." {
        wname(&format!("{rel}."))
    } else {
        wname(&format!("{rel}.{apex_text}"))
    }
}

pub fn upper(n: &[u8]) -> WName {
    // Length octets are <= 63 and therefore not ASCII letters.
    n.iter().map(|b| b.to_ascii_uppercase()).collect()
}

pub fn a_rdata(k: u8) -> Vec<u8> {
    vec![192, 0, 2, k]
}

pub fn aaaa_rdata(k: u8) -> Vec<u8> {
    let mut v = vec![0x20, 0x01, 0x0d, 0xb8, 0, 0, 0, 0, 0, 0, 0, 0, 0, 0, 0, 0];
    v[15] = k;
    v
}

pub fn txt_rdata(s: &[u8]) -> Vec<u8> {
    let mut v = vec![s.len() as u8];
    v.extend_from_slice(s);
    v
}

pub fn mx_rdata(pref: u16, host: &[u8]) -> Vec<u8> {
    let mut v = pref.to_be_bytes().to_vec();
    v.extend_from_slice(host);
    v
}

pub fn srv_rdata(port: u16, target: &[u8]) -> Vec<u8> {
    let mut v = vec![0, 1, 0, 2];
    v.extend_from_slice(&port.to_be_bytes());
    v.extend_from_slice(target);
    v
}

pub fn soa_rdata(apex_text: &str, serial: u32, minimum: u32) -> Vec<u8> {
    let mut v = nm("ns", apex_text);
    v.extend_from_slice(&nm("admin", apex_text));
    for x in [serial, 7200, 900, 86400, minimum] {
        v.extend_from_slice(&x.to_be_bytes());
    }
    v
}

/// The names of `base` plus every name one label below (labels `l1`) and two
/// labels below (pairs `l2` = (upper label, lower label)... written
/// `first.second.<base>`).
pub fn closure(base: &BTreeSet<WName>, l1: &[&[u8]], l2: &[(&[u8], &[u8])]) -> Vec<WName> {
    let mut out: BTreeSet<WName> = BTreeSet::new();
    for n in base {
        out.insert(n.clone());
        for l in l1 {
            let x = wire::child(l, n);
            if x.len() <= 255 {
                out.insert(x);
            }
        }
        for (a, b) in l2 {
            let x = wire::child(a, &wire::child(b, n));
            if x.len() <= 255 {
                out.insert(x);
            }
        }
    }
    out.into_iter().collect()
}

// ------------------------------------------------------------------ C06

/// Owners of the C06 menu, relative to the apex. Index = owner slot (used
/// for the TTL so that an RRset always has one TTL). "A" shares slot 1.
pub const C06_OWNERS: &[(&str, usize)] = &[
    ("@", 0), ("a", 1), ("b", 2), ("*", 3), ("a.a", 4), ("b.a", 5), ("*.a", 6), ("x.*.a", 7), ("ns", 8), ("ns.a", 9),
];

fn ttl_for(slot: usize, typ: u16) -> u32 {
    100 + 10 * slot as u32 + (typ as u32 % 7)
}

/// Menu for C06 (store level; RDATA is opaque to the store except for
/// de-duplication): 10 owners x {A, AAAA, NS, CNAME, TXT}, a second A at
/// `a` and `*`, and two records whose owner is the case variant `A`.
pub fn c06_menu(apex_text: &str, class: u16) -> Vec<Rec> {
    let mut m = Vec::new();
    for (k, (o, slot)) in C06_OWNERS.iter().enumerate() {
        let owner = nm(o, apex_text);
        let k = k as u8;
        m.push(Rec::new(&owner, t::A, class, ttl_for(*slot, t::A), &a_rdata(10 + k)));
        m.push(Rec::new(&owner, t::AAAA, class, ttl_for(*slot, t::AAAA), &aaaa_rdata(10 + k)));
        m.push(Rec::new(&owner, t::NS, class, ttl_for(*slot, t::NS), &nm("ns.a", apex_text)));
        m.push(Rec::new(&owner, t::CNAME, class, ttl_for(*slot, t::CNAME), &nm("b", apex_text)));
        m.push(Rec::new(&owner, t::TXT, class, ttl_for(*slot, t::TXT), &txt_rdata(o.as_bytes())));
    }
    m.push(Rec::new(&nm("a", apex_text), t::A, class, ttl_for(1, t::A), &a_rdata(99)));
    m.push(Rec::new(&nm("*", apex_text), t::A, class, ttl_for(3, t::A), &a_rdata(98)));
    m.push(Rec::new(&nm("A", apex_text), t::TXT, class, ttl_for(1, t::TXT), &txt_rdata(b"upper")));
    m.push(Rec::new(&nm("A", apex_text), t::NS, class, ttl_for(1, t::NS), &nm("ns", apex_text)));
    m
}

pub const C06_TYPES: &[u16] = &[t::A, t::AAAA, t::NS, t::CNAME, t::TXT, t::MX];

/// Names probed for a C06 zone: every existing name (owners and empty
/// non-terminals), every name one label below over {a, b, *, q}, every name
/// two labels below over {q, *}^2 and a.q, and an upper-case spelling of
/// every existing name.
pub fn c06_names(model: &RefZone) -> Vec<WName> {
    let l1: [&[u8]; 4] = [b"a", b"b", b"*", b"q"];
    // Two labels below an existing name: the intermediate name either exists
    // (then it is itself a base name) or not, in which case all that matters
    // is whether each of the two labels is `*`; `a.q` keeps one more spelling.
    let l2: [(&[u8], &[u8]); 5] = [(b"q", b"q"), (b"*", b"q"), (b"q", b"*"), (b"*", b"*"), (b"a", b"q")];
    let mut v = closure(&model.exists, &l1, &l2);
    for n in &model.exists {
        let u = upper(n);
        if u != *n {
            v.push(u);
        }
    }
    v
}

/// Names outside a zone with the given apex, for checked lookups.
pub fn outside_names(apex: &[u8]) -> Vec<WName> {
    let mut out: BTreeSet<WName> = BTreeSet::new();
    let cands = [".", "u.", "a.u.", "t.u.", "tt.", "a.tt.", "t.", "a.t.", "s.u.", "a.s.u.", "ss.t.", "s.tt.", "st.", "*.", "*.u."];
    for cnd in cands {
        let n = wname(cnd);
        if !wire::eq_or_subdomain(&n, apex) {
            out.insert(n);
        }
    }
    // The parent of the apex and a sibling that shares all but the first
    // octet of the apex's first label.
    if let Some(p) = wire::parent(apex) {
        out.insert(p.clone());
        out.insert(wire::child(b"zz", &p));
    }
    // Label-boundary confusers: names whose wire form ends with the apex's
    // wire form octet for octet although they are not below the apex — the
    // apex's labels (length octets included) sit inside one longer label.
    // E.g. apex `s.t.` (01 's' 01 't' 00): `x\001s.t.` (03 'x' 01 's' 01 't' 00).
    if apex.len() > 1 {
        let first_len = apex[0] as usize;
        let rest = &apex[1 + first_len..];
        for prefix in [&b"x"[..], &b"xx"[..], &[1u8][..]] {
            let mut label = prefix.to_vec();
            label.extend_from_slice(&apex[..1 + first_len]);
            let confuser = wire::child(&label, rest);
            for n in [confuser.clone(), wire::child(b"a", &confuser), wire::child(b"a", &wire::child(b"b", &confuser)), upper(&confuser)] {
                if !wire::eq_or_subdomain(&n, apex) {
                    out.insert(n);
                }
            }
        }
        // and the whole apex (all labels) folded into one label below the root
        let mut label = b"y".to_vec();
        label.extend_from_slice(&apex[..apex.len() - 1]);
        if label.len() <= 63 {
            let n = wire::child(&label, &[0]);
            if !wire::eq_or_subdomain(&n, apex) {
                out.insert(n);
            }
        }
    }
    out.into_iter().collect()
}

// ------------------------------------------------------------------ C05

pub const C05_APEX: &str = "t.";

/// Records every C05 subset zone starts from: SOA (TTL 3 < MINIMUM 5, so
/// that using MINIMUM alone is visible) and an apex NS naming an
/// out-of-zone server.
pub fn c05_base(class: u16) -> Vec<Rec> {
    let apex = wname(C05_APEX);
    vec![
        Rec::new(&apex, t::SOA, class, 3, &soa_rdata(C05_APEX, 1, 5)),
        Rec::new(&apex, t::NS, class, 50, &wname("ns.u.")),
    ]
}

/// The C05 record menu (class IN). TTLs are per (owner, type).
pub fn c05_menu() -> Vec<Rec> {
    let x = C05_APEX;
    let cl = c::IN;
    let mut m: Vec<Rec> = Vec::new();
    let slot = |o: &str| C06_OWNERS.iter().find(|(n, _)| n.eq_ignore_ascii_case(o)).map(|(_, s)| *s).unwrap();
    let mut add = |o: &str, typ: u16, rd: Vec<u8>| {
        let ttl = if o == "@" && typ == t::NS { 50 } else { ttl_for(slot(o), typ) };
        m.push(Rec::new(&nm(o, x), typ, cl, ttl, &rd));
    };
    // Addresses.
    for (k, (o, _)) in C06_OWNERS.iter().enumerate() {
        add(o, t::A, a_rdata(10 + k as u8));
    }
    add("a", t::A, a_rdata(99));
    for (o, k) in [("a", 1u8), ("b", 2), ("*", 3), ("ns", 8), ("ns.a", 9)] {
        add(o, t::AAAA, aaaa_rdata(k));
    }
    for o in ["@", "a", "*", "*.a", "b.a"] {
        add(o, t::TXT, txt_rdata(o.as_bytes()));
    }
    // Delegations and apex NS.
    add("a", t::NS, nm("ns.a", x)); // glue inside the child
    add("a", t::NS, nm("ns", x)); // server in the parent's authoritative data
    add("a", t::NS, wname("ns.u.")); // out of zone
    add("a", t::NS, nm("NS.b", x)); // mixed case; below b if b is a cut, else wildcard / nonexistent
    add("b", t::NS, nm("ns.a", x)); // sibling glue when a is a cut
    add("b.a", t::NS, nm("ns", x)); // nested: occluded when a is a cut
    add("a.a", t::NS, nm("ns.a", x));
    add("@", t::NS, nm("ns", x));
    // CNAMEs.
    add("a", t::CNAME, nm("b", x));
    add("b", t::CNAME, nm("a", x)); // loop with the previous one
    add("b", t::CNAME, nm("a.a", x));
    add("b", t::CNAME, nm("B", x)); // self loop, other case
    add("*", t::CNAME, nm("a", x));
    add("*.a", t::CNAME, nm("b", x));
    add("a.a", t::CNAME, wname("x.u.")); // leaves the zone
    add("b.a", t::CNAME, nm("q.a", x)); // wildcard *.a / nonexistent / below cut a
    add("ns", t::CNAME, wname("A.T.")); // other case
    add("x.*.a", t::CNAME, nm("q.q", x)); // nonexistent or wildcard *
    // MX / SRV (additional-section processing).
    add("@", t::MX, mx_rdata(10, &nm("a", x)));
    add("@", t::MX, mx_rdata(20, &nm("ns.a", x)));
    add("a", t::MX, mx_rdata(10, &nm("b", x)));
    add("*", t::MX, mx_rdata(10, &nm("ns", x)));
    add("b", t::MX, mx_rdata(10, &wname("mail.u.")));
    add("b", t::MX, mx_rdata(20, &nm("q", x))); // nonexistent or wildcard
    add("*.a", t::MX, mx_rdata(10, &nm("a.a", x)));
    add("b", t::SRV, srv_rdata(53, &nm("a", x)));
    add("a.a", t::SRV, srv_rdata(53, &nm("ns", x)));
    add("*", t::SRV, srv_rdata(53, &nm("b.a", x)));
    m
}

pub const C05_QTYPES: &[u16] = &[t::A, t::AAAA, t::NS, t::CNAME, t::MX, t::TXT, t::SOA, t::SRV, t::ANY, 65280];

/// In-zone names mentioned in the RDATA of NS / CNAME / MX / SRV records.
pub fn in_zone_targets(model: &RefZone) -> Vec<WName> {
    let mut out = Vec::new();
    for sets in model.nodes.values() {
        for (typ, set) in sets {
            let off = match *typ {
                t::NS | t::CNAME => 0,
                t::MX => 2,
                t::SRV if model.class == c::IN => 6,
                _ => continue,
            };
            for rd in &set.rdatas {
                if let Some(n) = rd.get(off..) {
                    if wire::is_valid_uncompressed_all(n) && model.in_zone(n) {
                        out.push(wire::lower(n));
                    }
                }
            }
        }
    }
    out
}

/// QNAMEs for a C05 zone: existing names and in-zone targets; below each of
/// them `q`, `*` and `q.q`; plus (second list) an upper-case spelling of
/// each base name.
pub fn c05_names(model: &RefZone) -> (Vec<WName>, Vec<WName>) {
    let mut base: BTreeSet<WName> = model.exists.clone();
    base.extend(in_zone_targets(model));
    let l1: [&[u8]; 2] = [b"q", b"*"];
    let l2: [(&[u8], &[u8]); 1] = [(b"q", b"q")];
    let names = closure(&base, &l1, &l2);
    let uppers = base.iter().map(|n| upper(n)).filter(|u| !base.contains(u)).collect();
    (names, uppers)
}
