//! Hang watchdog ("terminates" is part of C24; the other checks use it so that
//! a non-terminating parser under a mutant becomes a violation instead of a
//! check that never returns).
//!
//! Every worker publishes the input it is about to hand to quandary in its
//! slot; a monitor thread reports a violation (with that input as the replay
//! case) and ends the run if a slot does not advance for `LIMIT`.

use qvlib::{json, Ctx, Value};
use std::cell::Cell;
use std::sync::atomic::{AtomicBool, AtomicU64, AtomicUsize, Ordering};
use std::sync::Mutex;
use std::time::{Duration, Instant};

/// Generous on purpose: the slowest legitimate case takes milliseconds, and a
/// false alarm on a starved or frozen machine would be a false VIOLATION.
pub const LIMIT: Duration = Duration::from_secs(90);
const POLL: Duration = Duration::from_millis(250);

struct Slot {
    seq: AtomicU64,
    busy: AtomicBool,
    /// (tag, input); tag "bytes": a zone file, "json": a serialized case
    data: Mutex<(&'static str, Vec<u8>)>,
}

pub struct Watch {
    slots: Vec<Slot>,
    next: AtomicUsize,
    done: AtomicBool,
    finish_args: Mutex<(String, String)>,
    exit_hook: Mutex<Option<Box<dyn Fn() + Send + Sync>>>,
}

thread_local! {
    static SLOT: Cell<usize> = const { Cell::new(usize::MAX) };
}

/// Consumes the leaked `Ctx` (the process exits inside `finish`, so the
/// original is never touched again).
pub fn finish_static(ctx: &'static Ctx, level: &str, rule: &str, exhaustive: bool) -> ! {
    // SAFETY: `ctx` was leaked and is never dropped; `finish` never returns.
    let owned = unsafe { std::ptr::read(ctx as *const Ctx) };
    owned.finish(level, rule, exhaustive)
}

impl Watch {
    pub fn start(ctx: &'static Ctx, level: &str, rule: &str) -> &'static Watch {
        let w: &'static Watch = Box::leak(Box::new(Watch {
            slots: (0..256)
                .map(|_| Slot { seq: AtomicU64::new(0), busy: AtomicBool::new(false), data: Mutex::new(("bytes", Vec::new())) })
                .collect(),
            next: AtomicUsize::new(0),
            done: AtomicBool::new(false),
            finish_args: Mutex::new((level.to_string(), rule.to_string())),
            exit_hook: Mutex::new(None),
        }));
        std::thread::spawn(move || w.monitor(ctx));
        w
    }

    fn slot(&self) -> &Slot {
        let i = SLOT.with(|s| {
            if s.get() == usize::MAX {
                s.set(self.next.fetch_add(1, Ordering::Relaxed) % self.slots.len());
            }
            s.get()
        });
        &self.slots[i]
    }

    /// Publishes the input about to be processed by this thread.
    #[inline]
    pub fn enter(&self, tag: &'static str, input: &[u8]) {
        let s = self.slot();
        {
            let mut d = s.data.lock().unwrap();
            d.0 = tag;
            d.1.clear();
            d.1.extend_from_slice(input);
        }
        s.seq.fetch_add(1, Ordering::Release);
        s.busy.store(true, Ordering::Release);
    }

    #[inline]
    pub fn leave(&self) {
        let s = self.slot();
        s.busy.store(false, Ordering::Release);
    }

    /// Registers clean-up to run if the monitor ends the run.
    pub fn on_exit(&self, f: Box<dyn Fn() + Send + Sync>) {
        *self.exit_hook.lock().unwrap() = Some(f);
    }

    /// Call before the normal `finish`.
    pub fn stop(&self) {
        self.done.store(true, Ordering::SeqCst);
    }

    fn monitor(&self, ctx: &'static Ctx) {
        let mut last: Vec<(u64, Instant)> = self.slots.iter().map(|_| (0, Instant::now())).collect();
        // A stall must persist over this many of the monitor's own polls as
        // well as over LIMIT of wall time: a frozen VM or a starved machine
        // stops the monitor together with the workers and must not count.
        let need_polls = (LIMIT.as_millis() / POLL.as_millis()) as u32;
        let mut polls: Vec<u32> = vec![0; self.slots.len()];
        loop {
            std::thread::sleep(POLL);
            if self.done.load(Ordering::SeqCst) {
                return;
            }
            for (i, s) in self.slots.iter().enumerate() {
                let seq = s.seq.load(Ordering::Acquire);
                if seq != last[i].0 || !s.busy.load(Ordering::Acquire) {
                    last[i] = (seq, Instant::now());
                    polls[i] = 0;
                    continue;
                }
                polls[i] += 1;
                if last[i].1.elapsed() >= LIMIT && polls[i] >= need_polls {
                    if self.done.swap(true, Ordering::SeqCst) {
                        return;
                    }
                    let d = s.data.lock().unwrap();
                    let case = hang_case(d.0, &d.1);
                    ctx.violation("hang", case);
                    ctx.mark_capped("a case did not terminate; the run was stopped");
                    if let Some(h) = self.exit_hook.lock().unwrap().as_ref() {
                        h();
                    }
                    let (level, rule) = self.finish_args.lock().unwrap().clone();
                    finish_static(ctx, &level, &rule, false);
                }
            }
        }
    }
}

fn hang_case(tag: &str, data: &[u8]) -> Value {
    if tag == "json" {
        if let Ok(v) = serde_json_from(data) {
            return v;
        }
    }
    json!({"family": "bytes", "input": qvlib::hex(data), "note": format!("did not terminate within {} s", LIMIT.as_secs())})
}

fn serde_json_from(data: &[u8]) -> Result<Value, ()> {
    let s = std::str::from_utf8(data).map_err(|_| ())?;
    s.parse::<Value>().map_err(|_| ())
}

/// Runs `f` on a fresh thread and waits at most `LIMIT`; `None` = it did not
/// finish (used by `--replay`, where a hanging case must be reported, not
/// waited for).
pub fn run_with_timeout<R: Send + 'static>(f: impl FnOnce() -> R + Send + 'static) -> Option<R> {
    let (tx, rx) = std::sync::mpsc::channel();
    std::thread::spawn(move || {
        let _ = tx.send(f());
    });
    // Same rule as the monitor: LIMIT of wall time made of this thread's own
    // short waits, so that a frozen machine does not count as a hang.
    let need = (LIMIT.as_millis() / POLL.as_millis()) as u32;
    let start = Instant::now();
    let mut waits = 0u32;
    loop {
        match rx.recv_timeout(POLL) {
            Ok(r) => return Some(r),
            Err(std::sync::mpsc::RecvTimeoutError::Disconnected) => return None,
            Err(std::sync::mpsc::RecvTimeoutError::Timeout) => {
                waits += 1;
                if waits >= need && start.elapsed() >= LIMIT {
                    return None;
                }
            }
        }
    }
}
