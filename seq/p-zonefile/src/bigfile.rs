//! C23 "buffer-boundary" family: zone files larger than the parser's read
//! buffer (several times 16 KiB), with a leading comment line whose length is
//! swept one octet at a time, so that every line ending, every field and
//! every token falls on every position relative to a buffer refill - with LF
//! and CRLF line endings, with and without a final newline. (Added after
//! seeded change C23r2 - a CR LF pair split across a refill - was missed by
//! the small-file families.)

use crate::c23::compare;
use crate::model::Flat;
use crate::zf;
use qvlib::wire::{t, wname};
use qvlib::{json, Ctx, Local};

fn render(pad: usize, crlf: bool, final_nl: bool, nrec: usize) -> (Vec<u8>, Vec<Flat>) {
    let eol: &[u8] = if crlf { b"\r\n" } else { b"\n" };
    let mut out: Vec<u8> = Vec::new();
    let mut exp = Vec::new();
    let mut line = 1usize;
    out.push(b';');
    out.extend(std::iter::repeat(b'c').take(pad));
    out.extend_from_slice(eol);
    line += 1;
    out.extend_from_slice(b"$ORIGIN t.");
    out.extend_from_slice(eol);
    line += 1;
    for i in 0..nrec {
        let owner = wname(&format!("h{i}.t."));
        let start_line = line;
        let (text, typ, rdata, extra_lines): (String, u16, Vec<u8>, usize) = match i % 6 {
            0 => (format!("h{i} 300 IN A 192.0.2.{}", i % 250), t::A, vec![192, 0, 2, (i % 250) as u8], 0),
            1 => {
                let s1 = format!("text {i}");
                let mut rd = vec![s1.len() as u8];
                rd.extend_from_slice(s1.as_bytes());
                rd.extend_from_slice(b"\x06second");
                (format!("h{i} 300 IN TXT \"{s1}\" second"), t::TXT, rd, 0)
            }
            2 => (format!("h{i} 300 IN NS ns{i}.example.net."), t::NS, wname(&format!("ns{i}.example.net.")), 0),
            3 => {
                let mut rd = vec![0, 10];
                rd.extend_from_slice(&wname(&format!("mail{i}.t.")));
                (format!("h{i}\t300\tIN\tMX\t10 mail{i}"), t::MX, rd, 0)
            }
            4 => {
                // a record continued over three lines inside parentheses,
                // with a comment on the middle line
                let e = if crlf { "\r\n" } else { "\n" };
                (format!("h{i} 300 IN TXT ( \"a{i}\"{e}   \"b\" ; c{e} \"c\" )"), t::TXT, {
                    let s = format!("a{i}");
                    let mut rd = vec![s.len() as u8];
                    rd.extend_from_slice(s.as_bytes());
                    rd.extend_from_slice(b"\x01b\x01c");
                    rd
                }, 2)
            }
            _ => (format!("h{i} 300 IN CNAME h{}.t. ; trailing comment", i / 2), t::CNAME, wname(&format!("h{}.t.", i / 2)), 0),
        };
        out.extend_from_slice(text.as_bytes());
        line += extra_lines;
        if i + 1 < nrec || final_nl {
            out.extend_from_slice(eol);
        }
        line += 1;
        exp.push(Flat { line: start_line, owner, ttl: 300, class: 1, typ, rdata });
    }
    (out, exp)
}

pub fn run(ctx: &Ctx) {
    let max_pad = ctx.pick(80, 200);
    let nrec = ctx.pick(1100, 2300); // ~40 KiB / ~85 KiB: 3 / 6 buffer refills
    let mut cases = Vec::new();
    for pad in 0..=max_pad {
        for crlf in [false, true] {
            for final_nl in [true, false] {
                cases.push((pad, crlf, final_nl));
            }
        }
    }
    ctx.set_extra("bigfile_cases", json!(cases.len()));
    ctx.par_for_each(&cases, |l: &mut Local, (pad, crlf, final_nl)| {
        let (bytes, expected) = render(*pad, *crlf, *final_nl, nrec);
        l.tick();
        let got = zf::parse_bytes(&bytes);
        let mism = compare(&expected, &got);
        let cls = format!("bigfile {} {} {}", if *crlf { "crlf" } else { "lf" }, if *final_nl { "final-newline" } else { "no-final-newline" }, if mism.is_empty() { "ok" } else { "MISMATCH" });
        l.outcome(&cls, || json!({"pad": pad, "crlf": crlf, "final_newline": final_nl, "records": nrec, "file_octets": bytes.len()}));
        for (k, d) in &mism {
            crate::report(l, &format!("bigfile:{k}"), || {
                json!({"family": "bigfile", "pad": pad, "crlf": crlf, "final_newline": final_nl, "records": nrec, "first_mismatch": d,
                       "file": qvlib::hex(&bytes), "expected": expected.iter().map(|f| f.to_json()).collect::<Vec<_>>()})
            });
        }
    });
}
