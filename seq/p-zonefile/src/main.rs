//! p-zonefile: checks for C23 (zone files parse to what they denote), C24
//! (parser totality / validity of yielded records) and C25 ($INCLUDE).
//!
//!   p-zonefile <C23|C24|C25> <quick|thorough> [--replay FILE]

mod bigfile;
mod c23;
mod c24;
mod c25;
mod generic;
mod model;
mod render;
mod shortread;
mod watch;
mod zf;

use qvlib::{Ctx, Local, Value};
use std::cell::RefCell;
use std::collections::HashSet;

thread_local! {
    static REPORTED: RefCell<HashSet<String>> = RefCell::new(HashSet::new());
}

/// Records a violation. The (possibly large) replay case is built only for
/// the first occurrence of a key on each worker; the runner keeps the first
/// case it receives per key and only counts the others.
pub fn report(l: &mut Local, key: &str, case: impl FnOnce() -> Value) {
    let first = REPORTED.with(|s| s.borrow_mut().insert(key.to_string()));
    l.violation(key, if first { case() } else { Value::Null });
}

fn main() {
    let ctx: &'static Ctx = Box::leak(Box::new(Ctx::from_args(&["C23", "C24", "C25"])));
    match ctx.id.as_str() {
        "C23" => c23::run(ctx),
        "C24" => c24::run(ctx),
        _ => c25::run(ctx),
    }
}
