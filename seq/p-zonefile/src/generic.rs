//! RFC 3597 generic-RDATA family, shared by C23 (completeness: valid RDATA in
//! `\#` form parses to exactly that RDATA) and C24 (soundness: whatever is
//! yielded passes validation for its class and type).
//!
//! Space: for every (class, type, RDATA) of the record menu — all supported
//! types — the RDATA itself, every single-nibble replacement (each hex digit
//! x each of the 15 other values), removal of the last octet, and extension
//! by one octet (00 / 01 / c0), each written as `x 5 <class> <type> \# n hex`.
//! Oracle: qvlib::wire::rdata_valid (independent per-type layout validator).

use crate::c23;
use crate::model::*;
use crate::watch::{self, Watch};
use crate::zf;
use qvlib::wire::{self, wname};
use qvlib::{hex, json, panic_key, unhex, Ctx, Local, Value};

#[derive(Clone, Copy, PartialEq, Eq, Debug)]
pub enum Mode {
    Completeness,
    Soundness,
}

fn class_text(c: u16) -> String {
    class_mnemonic(c).map(|s| s.to_string()).unwrap_or_else(|| format!("CLASS{c}"))
}
fn type_text(t: u16) -> String {
    type_mnemonic(t).map(|s| s.to_string()).unwrap_or_else(|| format!("TYPE{t}"))
}

pub fn file_for(class: u16, typ: u16, rd: &[u8]) -> Vec<u8> {
    let mut s = format!("$ORIGIN o.t.\nx 5 {} {} \\# {}", class_text(class), type_text(typ), rd.len());
    if !rd.is_empty() {
        s.push(' ');
        s.push_str(&hex(rd));
    }
    s.push('\n');
    s.into_bytes()
}

/// Evaluates one generic-RDATA case; returns (outcome class, violations).
pub fn eval(class: u16, typ: u16, rd: &[u8], mode: Mode, got: &Result<zf::Parsed, String>) -> (String, Vec<(String, String)>) {
    let valid = wire::rdata_valid(class, typ, rd);
    let mut v = Vec::new();
    let p = match got {
        Err(e) => return ("panic".into(), vec![(panic_key(e), format!("panic: {e}"))]),
        Ok(p) => p,
    };
    if p.runaway {
        v.push(("runaway".into(), "iterator did not finish".into()));
    }
    if p.after_err > 0 {
        v.push(("yield-after-error".into(), format!("{} items after the first error", p.after_err)));
    }
    for r in &p.recs {
        if !wire::rdata_valid(r.class, r.typ, &r.rdata) {
            v.push((format!("invalid-rdata-yielded:{}", type_text(r.typ)), format!("yielded RDATA {} is not valid for class {} type {}", hex(&r.rdata), r.class, r.typ)));
        }
    }
    let accepted = p.recs.len() == 1 && p.err.is_none();
    if mode == Mode::Completeness && valid {
        let exp = [Flat { line: 2, owner: wname("x.o.t."), ttl: 5, class, typ, rdata: rd.to_vec() }];
        v.extend(c23::compare(&exp, got).into_iter().map(|(k, d)| (format!("generic-{k}"), d)));
    }
    let cls = format!("generic {} {}", if valid { "valid" } else { "invalid" }, if accepted { "accepted" } else { "rejected" });
    (cls, v)
}

/// (class, type, RDATA) samples: the wire RDATA of every menu record.
pub fn samples() -> Vec<(u16, u16, Vec<u8>)> {
    let mut out: Vec<(u16, u16, Vec<u8>)> = Vec::new();
    for r in c23::menu() {
        let w = r.rd.wire();
        if w.len() > 80 {
            continue; // the 255-octet boundary cases are exercised by C23's renderer
        }
        let e = (r.class, r.typ, w);
        if !out.contains(&e) {
            out.push(e);
        }
    }
    out
}

pub fn variants(rd: &[u8]) -> Vec<Vec<u8>> {
    let mut out = vec![rd.to_vec()];
    for i in 0..rd.len() * 2 {
        let cur = if i % 2 == 0 { rd[i / 2] >> 4 } else { rd[i / 2] & 0xf };
        for n in 0..16u8 {
            if n != cur {
                let mut m = rd.to_vec();
                m[i / 2] = if i % 2 == 0 { (n << 4) | (m[i / 2] & 0xf) } else { (m[i / 2] & 0xf0) | n };
                out.push(m);
            }
        }
    }
    if !rd.is_empty() {
        out.push(rd[..rd.len() - 1].to_vec());
    }
    for x in [0x00u8, 0x01, 0xc0] {
        let mut m = rd.to_vec();
        m.push(x);
        out.push(m);
    }
    out
}

fn case_json(class: u16, typ: u16, rd: &[u8], file: &[u8]) -> Value {
    json!({"family": "generic", "class": class, "type": typ, "rdata": hex(rd), "file_text": String::from_utf8_lossy(file)})
}

pub fn run_family(ctx: &'static Ctx, watch: &'static Watch, mode: Mode) {
    let ss = samples();
    ctx.set_extra("generic_rdata_samples", json!(ss.len()));
    ctx.par_for_each(&ss, |l: &mut Local, (class, typ, rd)| {
        for m in variants(rd) {
            l.tick();
            let file = file_for(*class, *typ, &m);
            watch.enter("bytes", &file);
            let got = zf::parse_bytes(&file);
            watch.leave();
            let (cls, viol) = eval(*class, *typ, &m, mode, &got);
            l.outcome(&cls, || case_json(*class, *typ, &m, &file));
            for (k, _) in viol {
                crate::report(l, &k, || case_json(*class, *typ, &m, &file));
            }
        }
    });
}

pub fn replay(ctx: &'static Ctx, case: &Value, mode: Mode) {
    let class = case["class"].as_u64().unwrap_or(1) as u16;
    let typ = case["type"].as_u64().unwrap_or(1) as u16;
    let rd = unhex(case["rdata"].as_str().unwrap_or(""));
    let file = file_for(class, typ, &rd);
    let f2 = file.clone();
    let Some(got) = watch::run_with_timeout(move || zf::parse_bytes(&f2)) else {
        ctx.violation("hang", case.clone());
        eprintln!("replay: parser did not terminate");
        return;
    };
    let (cls, viol) = eval(class, typ, &rd, mode, &got);
    eprintln!("replay: file =\n{}replay: outcome = {cls}; observed = {:?}", String::from_utf8_lossy(&file), got.as_ref().map(|p| (&p.recs, &p.err)));
    for (k, d) in &viol {
        eprintln!("replay: VIOLATION {k}: {d}");
        ctx.violation(k, case.clone());
    }
    if viol.is_empty() {
        eprintln!("replay: conforms");
    }
}
