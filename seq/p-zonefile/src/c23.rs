//! C23 — zone files parse to exactly the records they describe.
//!
//! Space: scenario families (record lists + `$ORIGIN`/`$TTL` placements)
//! rendered by the exhaustive pretty-printer of `render.rs` under *every* set
//! of at most k non-default presentation choices; plus the RFC 3597 generic
//! RDATA family of `generic.rs`. Oracle: the generating record list with the
//! line numbers computed by the printer.

use crate::generic;
use crate::model::*;
use crate::render::*;
use crate::watch::{self, Watch};
use crate::zf;
use qvlib::wire::{self, c, t, wname};
use qvlib::{hex, json, panic_key, unhex, Ctx, Local, Value};

pub const RULE: &str = "every file = scenario (record list from a menu covering all supported types, with $ORIGIN/$TTL placements) x every set of <= k non-default presentation choices of an independent RFC 1035 s5 pretty-printer (owner abs/relative/@/blank/escaped; TTL/class omitted, swapped, lower-case, CLASSn; TYPEn; RDATA native or \\# in 1/2/n words; names relative/escaped; strings quoted/unquoted/\\DDD/raw; parentheses at every gap with LF/CRLF/comment inside; tabs; CRLF; comments; blank lines; EOF without newline), plus every single-nibble/length mutation of valid generic RDATA; plus short reads (default-rendered files delivered in uniform pieces of 1..8 octets, with one cut at every position, and with a 1/2/3-octet piece at every position); oracle = the generating records with line numbers (RFC 1035 s5.1, RFC 2308 s4, RFC 3597 s5, RFC 2181 s8)";

fn ip6(s: &str) -> [u8; 16] {
    // tiny independent parser for the menu's fully written addresses
    let g: Vec<u16> = s.split(':').map(|x| u16::from_str_radix(x, 16).unwrap()).collect();
    assert_eq!(g.len(), 8);
    let mut o = [0u8; 16];
    for (i, x) in g.iter().enumerate() {
        o[2 * i..2 * i + 2].copy_from_slice(&x.to_be_bytes());
    }
    o
}

/// The full record menu: every supported type, boundary values, awkward names
/// and strings.
pub fn menu() -> Vec<Rec> {
    let long_label = "l".repeat(63);
    let long_name = format!("{0}.{0}.{0}.{1}.", "m".repeat(63), "n".repeat(61)); // 255 octets
    let s255: Vec<u8> = (0..255u32).map(|i| b'a' + (i % 26) as u8).collect();
    let mut m = vec![
        Rec::new("a.o.t.", 300, c::IN, t::A, Rd::A([10, 0, 0, 1])),
        Rec::new("a.o.t.", 300, c::IN, t::A, Rd::A([255, 255, 255, 255])),
        Rec::new("a.o.t.", 300, c::IN, t::AAAA, Rd::Aaaa(ip6("2001:db8:0:0:0:0:0:1"))),
        Rec::new("a.o.t.", 300, c::IN, t::AAAA, Rd::Aaaa(ip6("0:0:1:0:0:0:c0a8:101"))),
        Rec::new("a.o.t.", 300, c::IN, t::AAAA, Rd::Aaaa(ip6("fe80:1:2:3:a:b:c:d"))),
        Rec::new("a.o.t.", 300, c::IN, t::AAAA, Rd::Aaaa([0; 16])),
        Rec::new("o.t.", 300, c::IN, t::NS, Rd::Name(wname("ns.o.t."))),
        Rec::new("o.t.", 300, c::IN, t::SOA, Rd::Soa(wname("ns.o.t."), wname("ad\\.min.x.y."), [1, 4294967295, 0, 2147483648, 5])),
        Rec::new("o.t.", 300, c::CH, t::SOA, Rd::Soa(wname("o.t."), wname("."), [2022010100, 3600, 900, 86400, 60])),
        Rec::new("a.o.t.", 300, c::IN, t::MX, Rd::Mx(10, wname("o.t."))),
        Rec::new("a.o.t.", 300, c::IN, t::MX, Rd::Mx(65535, wname("."))),
        Rec::new("a.o.t.", 300, c::IN, t::TXT, Rd::Txt(vec![b"hello".to_vec(), b"wor ld;(x)".to_vec()])),
        Rec::new("a.o.t.", 300, c::IN, t::TXT, Rd::Txt(vec![b"".to_vec(), b"q\"b\\s".to_vec(), b"\n\t\r\x00\xff l".to_vec()])),
        Rec::new("a.o.t.", 300, c::IN, t::TXT, Rd::Txt(vec![s255.clone()])),
        Rec::new("a.o.t.", 300, c::IN, t::TXT, Rd::Txt(vec![b"\\#".to_vec(), b"@".to_vec(), b"$TTL".to_vec(), b"7".to_vec()])),
        // strings and names that merely start like a special token (the
        // generic-RDATA marker, the origin sign)
        Rec::new("a.o.t.", 300, c::IN, t::TXT, Rd::Txt(vec![b"#tag".to_vec(), b"@x".to_vec()])),
        Rec::new("a.o.t.", 300, c::IN, t::HINFO, Rd::Hinfo(b"#1".to_vec(), b"@".to_vec())),
        Rec::new("a.o.t.", 300, c::IN, t::NS, Rd::Name(wname("#1.ns.o.t."))),
        Rec::new("@x.o.t.", 300, c::IN, t::MX, Rd::Mx(5, wname("@y.o.t."))),
        Rec::new("a.o.t.", 300, c::HS, t::TXT, Rd::Txt(vec![b"hesiod".to_vec()])),
        Rec::new("a.o.t.", 300, c::IN, t::HINFO, Rd::Hinfo(b"cpu".to_vec(), b"o s".to_vec())),
        Rec::new("a.o.t.", 300, c::IN, t::HINFO, Rd::Hinfo(b"".to_vec(), b";".to_vec())),
        Rec::new("a.o.t.", 300, c::IN, t::MINFO, Rd::Minfo(wname("r.o.t."), wname("e.x.y."))),
        Rec::new("_s._tcp.o.t.", 300, c::IN, t::SRV, Rd::Srv(1, 2, 3, wname("t.o.t."))),
        Rec::new("_s._tcp.o.t.", 300, c::IN, t::SRV, Rd::Srv(65535, 0, 65535, wname("."))),
        Rec::new("a.o.t.", 300, c::IN, t::WKS, Rd::Wks([10, 0, 0, 1], 6, vec![25, 80])),
        Rec::new("a.o.t.", 300, c::IN, t::WKS, Rd::Wks([10, 0, 0, 1], 17, vec![])),
        Rec::new("a.o.t.", 300, c::IN, t::WKS, Rd::Wks([10, 0, 0, 1], 200, vec![0, 7, 8, 15])),
        Rec::new("a.o.t.", 300, c::CH, t::A, Rd::ChA(wname("ch.o.t."), 0o777)),
        Rec::new("a.o.t.", 300, c::CH, t::A, Rd::ChA(wname("o.t."), 0o177777)),
        Rec::new("a.o.t.", 300, c::IN, t::CNAME, Rd::Name(wname("x.y."))),
        Rec::new("1.0.0.10.in-addr.arpa.", 300, c::IN, t::PTR, Rd::Name(wname("a.o.t."))),
        Rec::new("a.o.t.", 300, c::IN, t::MB, Rd::Name(wname("o.t."))),
        Rec::new("a.o.t.", 300, c::IN, t::MG, Rd::Name(wname("A.o.t."))),
        Rec::new("a.o.t.", 300, c::IN, t::MR, Rd::Name(wname("a\\.b.o.t."))),
        Rec::new("a.o.t.", 300, c::IN, t::MD, Rd::Name(wname("."))),
        Rec::new("a.o.t.", 300, c::IN, t::MF, Rd::Name(wname("f.o.t."))),
        Rec::new("a.o.t.", 300, c::IN, 65280, Rd::Opaque(vec![1, 2, 3, 0xab])),
        Rec::new("a.o.t.", 300, c::IN, 65280, Rd::Opaque(vec![])),
        Rec::new("a.o.t.", 300, c::IN, 99, Rd::Opaque(vec![0xde, 0xad, 0xbe, 0xef, 0x00, 0xfa, 0xce])),
        Rec::new("a.o.t.", 300, 65280, t::A, Rd::Opaque(vec![0xab, 0xcd])),
        Rec::new("a.o.t.", 300, c::HS, t::A, Rd::Opaque(vec![10, 0, 0, 1])),
        Rec::new("a.o.t.", 300, c::CH, t::AAAA, Rd::Opaque(vec![1])),
        Rec::new("a.o.t.", 300, 2, t::NS, Rd::Name(wname("ns.o.t."))),
        // TTL boundaries (RFC 2181 s8)
        Rec::new("a.o.t.", 0, c::IN, t::A, Rd::A([10, 0, 0, 2])),
        Rec::new("a.o.t.", 2147483647, c::IN, t::A, Rd::A([10, 0, 0, 3])),
        Rec::new("a.o.t.", 2147483648, c::IN, t::A, Rd::A([10, 0, 0, 4])),
        Rec::new("a.o.t.", 4294967295, c::IN, t::A, Rd::A([10, 0, 0, 5])),
        // owner names
        Rec::new(".", 300, c::IN, t::NS, Rd::Name(wname("."))),
        Rec::new("o.t.", 300, c::IN, t::A, Rd::A([10, 0, 0, 6])),
        Rec::new("*.o.t.", 300, c::IN, t::A, Rd::A([10, 0, 0, 7])),
        Rec::new("a\\.b.o.t.", 300, c::IN, t::A, Rd::A([10, 0, 0, 8])),
        Rec::new("\\$s.o.t.", 300, c::IN, t::A, Rd::A([10, 0, 0, 9])),
        Rec::new("\\@.o.t.", 300, c::IN, t::A, Rd::A([10, 0, 0, 10])),
        Rec::new("a\\032b\\000\\255.o.t.", 300, c::IN, t::A, Rd::A([10, 0, 0, 11])),
        Rec::new("1a.o.t.", 300, c::IN, t::A, Rd::A([10, 0, 0, 12])),
        Rec::new("\\;\\(\\)\\\"\\\\.o.t.", 300, c::IN, t::A, Rd::A([10, 0, 0, 13])),
        Rec::new("A.O.T.", 300, c::IN, t::A, Rd::A([10, 0, 0, 14])),
        Rec::new("in.a.300.o.t.", 300, c::IN, t::A, Rd::A([10, 0, 0, 15])),
        Rec::new("x.y.", 300, c::IN, t::A, Rd::A([10, 0, 0, 16])),
    ];
    m.push(Rec::new(&format!("{long_label}.o.t."), 300, c::IN, t::A, Rd::A([10, 0, 0, 17])));
    m.push(Rec::new(&long_name, 300, c::IN, t::NS, Rd::Name(wname(&long_name))));
    m
}

/// Small menu for the inheritance-interplay family: owners, TTLs and classes
/// chosen to collide.
fn small_menu() -> Vec<Rec> {
    vec![
        Rec::new("a.o.t.", 300, c::IN, t::A, Rd::A([10, 0, 0, 1])),
        Rec::new("a.o.t.", 60, c::IN, t::A, Rd::A([10, 0, 0, 2])),
        Rec::new("b.o.t.", 300, c::IN, t::TXT, Rd::Txt(vec![b"t".to_vec()])),
        Rec::new("o.t.", 300, c::CH, t::TXT, Rd::Txt(vec![b"c".to_vec()])),
        Rec::new("x.y.", 60, c::CH, t::TXT, Rd::Txt(vec![b"d".to_vec()])),
        Rec::new("a.o.t.", 300, c::IN, 65280, Rd::Opaque(vec![1, 2])),
        // the first owner in another letter case: the same domain name, but a
        // record keeps the spelling of its own line
        Rec::new("A.O.t.", 300, c::IN, t::A, Rd::A([10, 0, 0, 3])),
    ]
}

fn txt(r: &Rec, s: &[u8]) -> Rec {
    Rec { owner: r.owner.clone(), ttl: r.ttl, class: r.class, typ: t::TXT, rd: Rd::Txt(vec![s.to_vec()]) }
}

pub struct Family {
    pub name: &'static str,
    pub k: usize,
    pub scenarios: Vec<Scenario>,
}

/// F1: each menu record between an anchor and a trailer record that share
/// its owner/TTL/class, under four directive contexts.
fn family_f1() -> Vec<Scenario> {
    let mut out = Vec::new();
    for (mi, r) in menu().into_iter().enumerate() {
        let anchor = txt(&r, b"k");
        let trailer = txt(&r, b"z");
        let o = wname("o.t.");
        let variants: Vec<(&str, Vec<Item>, Vec<usize>)> = vec![
            ("plain", vec![Item::Rec(anchor.clone()), Item::Rec(r.clone()), Item::Rec(trailer.clone())], vec![0, 2]),
            ("origin", vec![Item::Origin(o.clone()), Item::Rec(anchor.clone()), Item::Rec(r.clone()), Item::Rec(trailer.clone())], vec![1, 3]),
            (
                "origin+ttl",
                vec![Item::Origin(o.clone()), Item::Ttl(r.ttl), Item::Rec(anchor.clone()), Item::Rec(r.clone()), Item::Rec(trailer.clone())],
                vec![2, 4],
            ),
            (
                "ttl,origin-change",
                vec![
                    Item::Ttl(7),
                    Item::Origin(wname("t.")),
                    Item::Rec(anchor.clone()),
                    Item::Origin(o.clone()),
                    Item::Rec(r.clone()),
                    Item::Rec(trailer.clone()),
                ],
                vec![2, 5],
            ),
        ];
        let mut variants = variants;
        variants.push(("root-origin", vec![Item::Origin(wname(".")), Item::Rec(anchor.clone()), Item::Rec(r.clone()), Item::Rec(trailer.clone())], vec![1, 3]));
        for (vn, items, reduced) in variants {
            out.push(Scenario { name: format!("F1/m{mi}/{vn}"), items, reduced });
        }
    }
    out
}

/// F2: every sequence of 1..=3 records over the small menu under six
/// directive placements; reduced choice points (owner, TTL, class, order,
/// inserted lines, line ending) on every record.
fn family_f2() -> Vec<Scenario> {
    let sm = small_menu();
    let mut seqs: Vec<Vec<usize>> = Vec::new();
    qvlib::enumerate::for_each_seq_upto(sm.len(), 3, |s| {
        if !s.is_empty() {
            seqs.push(s.to_vec());
        }
        true
    });
    let o = wname("o.t.");
    let mut out = Vec::new();
    for s in &seqs {
        let recs: Vec<Item> = s.iter().map(|i| Item::Rec(sm[*i].clone())).collect();
        for p in 0..6 {
            let mut items: Vec<Item> = Vec::new();
            match p {
                0 => {}
                1 => items.push(Item::Origin(o.clone())),
                2 => items.push(Item::Ttl(300)),
                3 => {
                    items.push(Item::Origin(o.clone()));
                    items.push(Item::Ttl(60));
                }
                4 => items.push(Item::Origin(o.clone())),
                _ => items.push(Item::Ttl(300)),
            }
            let nrec = recs.len();
            for (k, r) in recs.iter().enumerate() {
                if k + 1 == nrec && nrec > 1 {
                    if p == 4 {
                        items.push(Item::Origin(wname("t.")));
                    }
                    if p == 5 {
                        items.push(Item::Ttl(60));
                    }
                }
                items.push(r.clone());
            }
            if (p == 4 || p == 5) && nrec == 1 {
                continue;
            }
            let reduced = (0..items.len()).collect();
            out.push(Scenario { name: format!("F2/{s:?}/p{p}"), items, reduced });
        }
    }
    out
}

/// F3 (thorough): every ordered pair of full-menu records, full choice points
/// on both, after `$ORIGIN o.t.`.
fn family_f3() -> Vec<Scenario> {
    let m = menu();
    let mut out = Vec::new();
    for (i, a) in m.iter().enumerate() {
        for (j, b) in m.iter().enumerate() {
            out.push(Scenario {
                name: format!("F3/m{i},m{j}"),
                items: vec![Item::Origin(wname("o.t.")), Item::Rec(a.clone()), Item::Rec(b.clone())],
                reduced: vec![],
            });
        }
    }
    out
}

pub fn families(quick: bool) -> Vec<Family> {
    if quick {
        vec![Family { name: "F1", k: 2, scenarios: family_f1() }, Family { name: "F2", k: 3, scenarios: family_f2() }]
    } else {
        vec![
            Family { name: "F1", k: 3, scenarios: family_f1() },
            Family { name: "F2", k: 4, scenarios: family_f2() },
            Family { name: "F3", k: 2, scenarios: family_f3() },
        ]
    }
}

// ------------------------------------------------------------ comparison

fn type_name(tp: u16) -> String {
    type_mnemonic(tp).map(|s| s.to_string()).unwrap_or_else(|| format!("TYPE{tp}"))
}

/// Compares what the parser produced with what the file denotes. Returns
/// (violation key, human detail) pairs; empty = conforms.
pub fn compare(expected: &[Flat], got: &Result<zf::Parsed, String>) -> Vec<(String, String)> {
    let mut v = Vec::new();
    let p = match got {
        Err(panic) => return vec![(panic_key(panic), format!("panic: {panic}"))],
        Ok(p) => p,
    };
    if p.runaway {
        v.push(("runaway".into(), "iterator did not finish".into()));
    }
    if p.after_err > 0 {
        v.push(("yield-after-error".into(), format!("{} items after the first error", p.after_err)));
    }
    if !p.includes.is_empty() {
        v.push(("unexpected-include".into(), "an $INCLUDE line was reported".into()));
    }
    for (i, e) in expected.iter().enumerate() {
        let Some(g) = p.recs.get(i) else { break };
        if g.owner != e.owner {
            v.push(("owner".into(), format!("record {i}: owner {} != {}", wire::name_text(&g.owner), wire::name_text(&e.owner))));
        }
        if g.ttl != e.ttl {
            v.push(("ttl".into(), format!("record {i}: ttl {} != {}", g.ttl, e.ttl)));
        }
        if g.class != e.class {
            v.push(("class".into(), format!("record {i}: class {} != {}", g.class, e.class)));
        }
        if g.typ != e.typ {
            v.push(("type".into(), format!("record {i}: type {} != {}", g.typ, e.typ)));
        }
        if g.rdata != e.rdata {
            if e.typ == t::WKS && e.class == c::IN && wks_explained_by_bit_reversal(&e.rdata, &g.rdata) {
                // Known finding: quandary writes the WKS bit map LSB-first.
                v.push(("wks-bitmap-lsb-first".into(), format!("record {i}: WKS bit map {} != {}", hex(&g.rdata), hex(&e.rdata))));
            } else {
                v.push((format!("rdata:{}", type_name(e.typ)), format!("record {i}: rdata {} != {}", hex(&g.rdata), hex(&e.rdata))));
            }
        }
        if g.line != e.line {
            v.push(("line".into(), format!("record {i}: line {} != {}", g.line, e.line)));
        }
    }
    if let Some((kind, line)) = &p.err {
        v.push((format!("rejected:{kind}"), format!("error {kind} at line {line} after {} records", p.recs.len())));
    } else if p.recs.len() != expected.len() {
        v.push(("count".into(), format!("{} records yielded, {} denoted", p.recs.len(), expected.len())));
    }
    v
}

fn kinds(ch: &Choices) -> String {
    let mut ks: Vec<&'static str> = ch
        .0
        .iter()
        .map(|(cp, _)| match cp {
            Cp::Own(_) => "Own",
            Cp::OwnEsc(_) => "OwnEsc",
            Cp::Ttl(_) => "Ttl",
            Cp::Cls(_) => "Cls",
            Cp::Ord(_) => "Ord",
            Cp::Typ(_) => "Typ",
            Cp::RdForm(_) => "RdForm",
            Cp::Fld(_, _) => "Fld",
            Cp::Paren(_) => "Paren",
            Cp::Ws(_) => "Ws",
            Cp::Eol(_) => "Eol",
            Cp::Pre(_) => "Pre",
            Cp::DCase(_) => "DCase",
            Cp::DName(_) => "DName",
            Cp::DEol(_) => "DEol",
        })
        .collect();
    ks.sort();
    if ks.is_empty() {
        "default".into()
    } else {
        ks.join("+")
    }
}

fn case_json(sc: &Scenario, ch: &Choices, r: &Rendered, detail: &[(String, String)], got: &Result<zf::Parsed, String>) -> Value {
    json!({
        "family": "render",
        "scenario": sc.name,
        "choices": choices_json(ch),
        "file": hex(&r.bytes),
        "file_text": String::from_utf8_lossy(&r.bytes),
        "expected": r.expected.iter().map(|f| f.to_json()).collect::<Vec<_>>(),
        "observed": match got { Ok(p) => json!({"records": p.recs.iter().map(|f| f.to_json()).collect::<Vec<_>>(), "error": p.err.as_ref().map(|(k, l)| format!("{k} at line {l}"))}), Err(e) => json!({"panic": e}) },
        "mismatches": detail.iter().map(|(k, d)| format!("{k}: {d}")).collect::<Vec<_>>(),
    })
}

struct Shard {
    fam: usize,
    sc: usize,
    first: Option<usize>,
}

pub fn run(ctx: &'static Ctx) -> ! {
    let watch = Watch::start(ctx, "exploration", RULE);
    if let Some(case) = ctx.replay_case() {
        replay(ctx, case.clone());
        watch.stop();
        watch::finish_static(ctx, "exploration", RULE, false);
    }
    let fams = families(ctx.quick());
    if let Ok(name) = std::env::var("QVERIF_DUMP") {
        // audit aid: print every <= 1-deviation rendering of one scenario
        for f in &fams {
            for sc in f.scenarios.iter().filter(|s| s.name == name) {
                let cps = choice_points(sc);
                for first in std::iter::once(None).chain((0..cps.len()).map(Some)) {
                    for_each_choice_set(&cps, first, 1, &mut |ch: &Choices| {
                        if let Some(r) = render(sc, ch) {
                            println!("--- {} {:?}\n{}", sc.name, ch.0, String::from_utf8_lossy(&r.bytes));
                        }
                    });
                }
            }
        }
        std::process::exit(0);
    }
    let mut shards = Vec::new();
    let mut cps_of: Vec<Vec<Vec<CpInfo>>> = Vec::new();
    for (fi, f) in fams.iter().enumerate() {
        let mut per = Vec::new();
        for (si, sc) in f.scenarios.iter().enumerate() {
            let cps = choice_points(sc);
            shards.push(Shard { fam: fi, sc: si, first: None });
            for i in 0..cps.len() {
                shards.push(Shard { fam: fi, sc: si, first: Some(i) });
            }
            per.push(cps);
        }
        cps_of.push(per);
        ctx.set_extra(&format!("scenarios_{}", f.name), json!(f.scenarios.len()));
        ctx.set_extra(&format!("max_deviations_{}", f.name), json!(f.k));
    }
    // rotate the shard order by the seed (order only)
    let n = shards.len();
    if n > 0 {
        shards.rotate_left((ctx.seed as usize) % n);
    }
    let infeasible = std::sync::atomic::AtomicU64::new(0);
    ctx.par_for_each(&shards, |l: &mut Local, sh: &Shard| {
        let fam = &fams[sh.fam];
        let sc = &fam.scenarios[sh.sc];
        let cps = &cps_of[sh.fam][sh.sc];
        let mut skipped = 0u64;
        for_each_choice_set(cps, sh.first, fam.k, &mut |ch: &Choices| {
            let Some(r) = render(sc, ch) else {
                skipped += 1;
                return;
            };
            l.tick();
            watch.enter("bytes", &r.bytes);
            let got = zf::parse_bytes(&r.bytes);
            watch.leave();
            let mism = compare(&r.expected, &got);
            let ks = kinds(ch);
            if mism.is_empty() {
                let cls = if ch.0.len() <= 2 { format!("ok {} {}", fam.name, ks) } else { format!("ok {} {} deviations", fam.name, ch.0.len()) };
                l.outcome(&cls, || json!({"scenario": sc.name, "choices": choices_json(ch), "file_text": String::from_utf8_lossy(&r.bytes)}));
            } else {
                let mut real = 0;
                for (k, _) in &mism {
                    if k == "wks-bitmap-lsb-first" {
                        crate::report(l, k, || case_json(sc, ch, &r, &mism, &got));
                    } else {
                        real += 1;
                        crate::report(l, &format!("{k}/{}:{ks}", ch.0.len()), || case_json(sc, ch, &r, &mism, &got));
                    }
                }
                let cls = if real == 0 { format!("known-wks {}", fam.name) } else { format!("MISMATCH {}", mism[0].0) };
                l.outcome(&cls, || json!({"scenario": sc.name, "choices": choices_json(ch)}));
            }
        });
        infeasible.fetch_add(skipped, std::sync::atomic::Ordering::Relaxed);
    });
    ctx.set_extra("infeasible_choice_combinations_skipped", json!(infeasible.load(std::sync::atomic::Ordering::Relaxed)));
    crate::bigfile::run(ctx);
    crate::shortread::run(ctx);
    generic::run_family(ctx, watch, generic::Mode::Completeness);
    ctx.assume("the pretty-printer's reading of RFC 1035 s5.1 / RFC 2308 s4 / RFC 3597 s5 (see render.rs header); WKS bit maps are MSB-first (RFC 1035 s3.4.2, BIND)");
    watch.stop();
    watch::finish_static(ctx, "exploration", RULE, true)
}

fn replay(ctx: &'static Ctx, case: Value) {
    if case["family"] == "generic" {
        generic::replay(ctx, &case, generic::Mode::Completeness);
        return;
    }
    let file = unhex(case["file"].as_str().or(case["input"].as_str()).unwrap_or(""));
    let expected: Vec<Flat> = case["expected"].as_array().map(|a| a.iter().map(Flat::from_json).collect()).unwrap_or_default();
    let f2 = file.clone();
    // short-read family: the piece sizes the stream delivers
    let pieces: Option<Vec<usize>> = case["pieces"].as_array().map(|a| a.iter().filter_map(|x| x.as_u64().map(|v| v as usize)).collect());
    let got = match watch::run_with_timeout(move || match &pieces {
        Some(p) => zf::parse_pieces(&f2, p),
        None => zf::parse_bytes(&f2),
    }) {
        Some(g) => g,
        None => {
            ctx.violation("hang", case.clone());
            eprintln!("replay: parser did not terminate");
            return;
        }
    };
    let mism = compare(&expected, &got);
    eprintln!("replay: file =\n{}", String::from_utf8_lossy(&file));
    eprintln!("replay: expected = {}", json!(expected.iter().map(|f| f.to_json()).collect::<Vec<_>>()));
    match &got {
        Ok(p) => eprintln!("replay: observed = {} error = {:?}", json!(p.recs.iter().map(|f| f.to_json()).collect::<Vec<_>>()), p.err),
        Err(e) => eprintln!("replay: observed panic {e}"),
    }
    for (k, d) in &mism {
        eprintln!("replay: MISMATCH {k}: {d}");
        ctx.violation(k, case.clone());
    }
    if mism.is_empty() {
        eprintln!("replay: conforms");
    }
}
