//! C25 — `$INCLUDE` behaves like textual inclusion with origin scoping.
//!
//! Real files under /var/tmp/qverif/c25-<pid>-*: a static library of leaf
//! files (every sequence of <= 2 items over a 6-item alphabet, plus special
//! bodies) and of mid-level files (item, `$INCLUDE leaf [origin]`, item), and
//! per-worker directories holding the root file (rewritten for every case),
//! decoy files and the path-family files.
//!
//! Families (each enumerated completely):
//!  flow/S1   root = pre ++ [$INCLUDE leaf [origin]] ++ post
//!  flow/S2   root = pre ++ [$INCLUDE leaf1 ..] ++ mid ++ [$INCLUDE leaf2 ..] ++ post
//!  flow/S3   root = pre ++ [$INCLUDE mid-file ..] ++ post        (nested)
//!  paths     root -> X -> Y with every combination of path spellings
//!            (relative, ./, ../, via sub-directories, absolute, quoted,
//!            escaped, missing), with same-named decoy files in the wrong
//!            directories; and root -> X, then (back in the root) -> Z: a
//!            second include after returning from another directory
//!  depth     include chains of length 0..7, cycles, re-entry after return,
//!            under max_depth 0..8
//! Oracle: a reference interpreter of the item lists (context = origin,
//! previous owner/TTL/class, $TTL; an included file starts with the
//! includer's context or the directive's origin; afterwards the includer's
//! origin is restored and everything else is carried back; include paths are
//! resolved against the including file's directory; depth >= max is an
//! error), producing the expected (path, line, record) list and terminal
//! outcome. Secondary, where expressible: the statement's own relation —
//! the in-memory parser on the textually flattened file yields the same
//! records.

use crate::model::Flat;
use crate::watch::{self, Watch};
use crate::zf;
use quandary::zone_file::fs;
use qvlib::wire::{self, wname, WName};
use qvlib::{catch, hex, json, panic_key, Ctx, Local, Value};
use std::cell::RefCell;
use std::collections::HashMap;
use std::ffi::OsStr;
use std::os::unix::ffi::OsStrExt;
use std::path::{Component, Path, PathBuf};
use std::rc::Rc;
use std::sync::atomic::{AtomicUsize, Ordering};
use std::sync::Mutex;

pub const RULE: &str = "real file trees: root file = every item sequence (pre <= 2, post <= 2 over {relative-owner record, blank-owner record with omitted TTL and class, @ record in another class, $ORIGIN relative, $ORIGIN absolute, $TTL}) around one include, two sibling includes or a nested include (root -> mid -> leaf) of library files that are themselves every item sequence <= 2, x include origin {none, relative, absolute} x root preamble {none, full context}; every combination of include-path spellings over two levels with decoy files, and a second include in the root after returning from an include in another directory; include chains/cycles x max_depth 0..8. Oracle: reference interpreter of RFC 1035 s5.1 $INCLUDE semantics giving expected (path, line, record) lists and terminal outcome; plus in-memory parse of the flattened file where expressible";

// ------------------------------------------------------------- item model

#[derive(Clone, Debug, PartialEq)]
pub enum Own {
    Rel(String),
    At,
    Blank,
    Abs(String),
}

#[derive(Clone, Debug, PartialEq)]
pub enum Nm {
    Rel(String),
    Abs(String),
}

#[derive(Clone, Debug, PartialEq)]
pub enum It {
    /// `<owner> [ttl] [class] TXT "<file id>:<line>"`
    Rec { owner: Own, ttl: Option<u32>, class: Option<u16> },
    Origin(Nm),
    Ttl(u32),
    /// `text`: the path as written in the file (quoting/escapes included);
    /// `denotes`: the octets that spelling denotes.
    Include { text: Vec<u8>, denotes: Vec<u8>, origin: Option<Nm> },
    /// an unknown directive: a syntax error
    Bogus,
    Empty,
}

#[derive(Clone, Debug)]
pub struct FileSpec {
    pub id: String,
    pub store: PathBuf,
    pub body: Vec<It>,
    pub final_newline: bool,
}

fn class_text(c: u16) -> &'static str {
    match c {
        1 => "IN",
        3 => "CH",
        _ => "HS",
    }
}

fn nm_text(n: &Nm) -> &str {
    match n {
        Nm::Rel(s) | Nm::Abs(s) => s,
    }
}

fn render_item(it: &It, id: &str, line: usize, out: &mut Vec<u8>) {
    match it {
        It::Rec { owner, ttl, class } => {
            match owner {
                Own::Rel(s) | Own::Abs(s) => out.extend_from_slice(s.as_bytes()),
                Own::At => out.push(b'@'),
                Own::Blank => {}
            }
            if let Some(t) = ttl {
                out.extend_from_slice(format!(" {t}").as_bytes());
            }
            if let Some(c) = class {
                out.extend_from_slice(format!(" {}", class_text(*c)).as_bytes());
            }
            out.extend_from_slice(format!(" TXT \"{id}:{line}\"").as_bytes());
        }
        It::Origin(n) => out.extend_from_slice(format!("$ORIGIN {}", nm_text(n)).as_bytes()),
        It::Ttl(t) => out.extend_from_slice(format!("$TTL {t}").as_bytes()),
        It::Include { text, origin, .. } => {
            out.extend_from_slice(b"$INCLUDE ");
            out.extend_from_slice(text);
            if let Some(o) = origin {
                out.push(b' ');
                out.extend_from_slice(nm_text(o).as_bytes());
            }
        }
        It::Bogus => out.extend_from_slice(b"$BOGUS x"),
        It::Empty => {}
    }
}

pub fn render_file(f: &FileSpec) -> Vec<u8> {
    let mut out = Vec::new();
    for (i, it) in f.body.iter().enumerate() {
        render_item(it, &f.id, i + 1, &mut out);
        if i + 1 < f.body.len() || f.final_newline {
            out.push(b'\n');
        }
    }
    out
}

// ------------------------------------------------------ reference model

#[derive(Clone, Debug, PartialEq)]
pub struct ExpLine {
    pub path: PathBuf,
    pub rec: Flat,
}

#[derive(Clone, Debug, PartialEq)]
pub enum Term {
    Done,
    Syntax { path: PathBuf, line: usize },
    TooDeep { path: PathBuf, line: usize },
    OpenFailed { path: PathBuf, line: usize, target: PathBuf },
}

impl Term {
    fn class(&self) -> &'static str {
        match self {
            Term::Done => "Done",
            Term::Syntax { .. } => "Syntax",
            Term::TooDeep { .. } => "TooDeep",
            Term::OpenFailed { .. } => "OpenFailed",
        }
    }
}

#[derive(Clone, Debug, Default)]
struct Cx {
    origin: Option<WName>,
    owner: Option<WName>,
    ttl: Option<u32>,
    class: Option<u16>,
    dttl: Option<u32>,
}

/// Lexical normalisation (no symlinks are ever created in the test trees).
pub fn normalize(p: &Path) -> PathBuf {
    let mut out = PathBuf::new();
    for c in p.components() {
        match c {
            Component::CurDir => {}
            Component::ParentDir => {
                out.pop();
            }
            other => out.push(other.as_os_str()),
        }
    }
    out
}

fn resolve_name(n: &Nm, origin: &Option<WName>) -> Option<WName> {
    match n {
        Nm::Abs(s) => Some(wname(s)),
        Nm::Rel(s) => {
            let o = origin.as_ref()?;
            let mut w = wname(&format!("{s}."));
            w.pop();
            w.extend_from_slice(o);
            Some(w)
        }
    }
}

pub struct World {
    pub files: Vec<FileSpec>,
    pub by_path: HashMap<PathBuf, usize>,
}

impl World {
    fn add(&mut self, f: FileSpec) -> usize {
        let i = self.files.len();
        self.by_path.insert(normalize(&f.store), i);
        self.files.push(f);
        i
    }
}

struct Interp<'a> {
    env: &'a Env<'a>,
    max_depth: usize,
    out: Vec<ExpLine>,
    /// textually flattened equivalent, while it is expressible
    flat: Option<Vec<u8>>,
}

impl<'a> Interp<'a> {
    fn file_at(&self, p: &Path) -> Option<&'a FileSpec> {
        self.env.file_at(p)
    }

    fn run(&mut self, f: &'a FileSpec, path: &Path, cx: &mut Cx, depth: usize) -> Result<(), Term> {
        for (i, it) in f.body.iter().enumerate() {
            let line = i + 1;
            let syntax = || Term::Syntax { path: path.to_path_buf(), line };
            let mut emit_flat = true;
            match it {
                It::Empty => {}
                It::Bogus => return Err(syntax()),
                It::Ttl(t) => cx.dttl = Some(*t),
                It::Origin(n) => cx.origin = Some(resolve_name(n, &cx.origin).ok_or_else(syntax)?),
                It::Rec { owner, ttl, class } => {
                    let o = match owner {
                        Own::Abs(s) => wname(s),
                        Own::Rel(s) => resolve_name(&Nm::Rel(s.clone()), &cx.origin).ok_or_else(syntax)?,
                        Own::At => cx.origin.clone().ok_or_else(syntax)?,
                        Own::Blank => cx.owner.clone().ok_or_else(syntax)?,
                    };
                    // RFC 2308 s4: $TTL, else RFC 1035 s5.1: previous TTL
                    let t = ttl.or(cx.dttl.or(cx.ttl)).ok_or_else(syntax)?;
                    let c = class.or(cx.class).ok_or_else(syntax)?;
                    let tag = format!("{}:{}", f.id, line);
                    let mut rd = vec![tag.len() as u8];
                    rd.extend_from_slice(tag.as_bytes());
                    self.out.push(ExpLine { path: path.to_path_buf(), rec: Flat { line, owner: o.clone(), ttl: t, class: c, typ: wire::t::TXT, rdata: rd } });
                    cx.owner = Some(o);
                    cx.ttl = Some(t);
                    cx.class = Some(c);
                }
                It::Include { denotes, origin, .. } => {
                    emit_flat = false;
                    let inc_origin = match origin {
                        Some(n) => Some(resolve_name(n, &cx.origin).ok_or_else(syntax)?),
                        None => None,
                    };
                    if depth >= self.max_depth {
                        return Err(Term::TooDeep { path: path.to_path_buf(), line });
                    }
                    // "Relative include paths resolve against the including
                    // file's directory"
                    let dir = path.parent().unwrap_or(Path::new("/"));
                    let target = dir.join(Path::new(OsStr::from_bytes(denotes)));
                    let Some(child) = self.file_at(&target) else {
                        return Err(Term::OpenFailed { path: path.to_path_buf(), line, target });
                    };
                    let saved = cx.origin.clone();
                    if let Some(o) = inc_origin {
                        cx.origin = Some(o);
                        if let Some(fl) = self.flat.as_mut() {
                            fl.extend_from_slice(format!("$ORIGIN {}\n", wire::name_text(cx.origin.as_ref().unwrap())).as_bytes());
                        }
                    }
                    self.run(child, &target, cx, depth + 1)?;
                    let changed = cx.origin != saved;
                    cx.origin = saved;
                    if let Some(fl) = self.flat.as_mut() {
                        match &cx.origin {
                            Some(o) => fl.extend_from_slice(format!("$ORIGIN {}\n", wire::name_text(o)).as_bytes()),
                            // "no origin" cannot be restored textually
                            None if changed => self.flat = None,
                            None => {}
                        }
                    }
                }
            }
            if emit_flat {
                if let Some(fl) = self.flat.as_mut() {
                    render_item(it, &f.id, line, fl);
                    fl.push(b'\n');
                }
            }
        }
        Ok(())
    }
}

pub struct Expected {
    pub lines: Vec<ExpLine>,
    pub term: Term,
    pub flat: Option<Vec<u8>>,
}

/// The files that exist: per-case extras (root first), the worker's files,
/// the shared library.
pub struct Env<'a> {
    pub extras: Vec<&'a FileSpec>,
    pub wk: &'a World,
    pub lib: &'a World,
}

impl<'a> Env<'a> {
    pub fn file_at(&self, p: &Path) -> Option<&'a FileSpec> {
        let n = normalize(p);
        for f in &self.extras {
            if normalize(&f.store) == n {
                return Some(f);
            }
        }
        for w in [self.wk, self.lib] {
            if let Some(i) = w.by_path.get(&n) {
                return Some(&w.files[*i]);
            }
        }
        None
    }
    pub fn all_files(&self) -> impl Iterator<Item = &'a FileSpec> + '_ {
        self.extras.iter().copied().chain(self.wk.files.iter()).chain(self.lib.files.iter())
    }
}

pub fn expected(env: &Env, max_depth: usize) -> Expected {
    let root = env.extras[0];
    let mut it = Interp { env, max_depth, out: Vec::new(), flat: Some(Vec::new()) };
    let mut cx = Cx::default();
    let path = root.store.clone();
    let term = match it.run(root, &path, &mut cx, 0) {
        Ok(()) => Term::Done,
        Err(t) => t,
    };
    let flat = if term == Term::Done { it.flat } else { None };
    Expected { lines: it.out, term, flat }
}

// --------------------------------------------------------- observation

#[derive(Debug)]
pub struct Observed {
    pub lines: Vec<ExpLine>,
    pub term: Term,
    pub after_end: usize,
    pub runaway: bool,
}

pub fn observe(root: &Path, max_depth: usize) -> Result<Observed, String> {
    catch(|| {
        let mut p = match fs::Parser::open(root, max_depth) {
            Ok(p) => p,
            Err(e) => panic!("cannot open root file {}: {e}", root.display()),
        };
        let mut lines = Vec::new();
        let mut term = Term::Done;
        let mut runaway = false;
        loop {
            match p.next() {
                None => break,
                Some(Ok(l)) => {
                    let r = &l.record;
                    lines.push(ExpLine {
                        path: l.path.to_path_buf(),
                        rec: Flat {
                            line: l.number,
                            owner: r.owner.wire_repr().to_vec(),
                            ttl: u32::from(r.ttl),
                            class: u16::from(r.class),
                            typ: u16::from(r.rr_type),
                            rdata: r.rdata.octets().to_vec(),
                        },
                    });
                    if lines.len() > 10_000 {
                        runaway = true;
                        break;
                    }
                }
                Some(Err(e)) => {
                    let path = e.path().to_path_buf();
                    term = match e.kind() {
                        fs::error::ErrorKind::Syntax(d) => Term::Syntax { path, line: d.line() },
                        fs::error::ErrorKind::IncludesTooDeep(d) => Term::TooDeep { path, line: d.line() },
                        fs::error::ErrorKind::FailedToOpenInclude(d) => Term::OpenFailed { path, line: d.line(), target: d.path().to_path_buf() },
                        fs::error::ErrorKind::InvalidPath(d) => Term::Syntax { path: PathBuf::from(format!("<InvalidPath> {}", path.display())), line: d.line() },
                        fs::error::ErrorKind::GeneralIo(_) => Term::Syntax { path: PathBuf::from(format!("<GeneralIo> {}", path.display())), line: 0 },
                    };
                    break;
                }
            }
        }
        let mut after_end = 0;
        for _ in 0..3 {
            if p.next().is_some() {
                after_end += 1;
            }
        }
        Observed { lines, term, after_end, runaway }
    })
}

fn same_path(a: &Path, b: &Path) -> bool {
    a == b || normalize(a) == normalize(b)
}

fn term_eq(e: &Term, o: &Term) -> bool {
    match (e, o) {
        (Term::Done, Term::Done) => true,
        (Term::Syntax { path: p1, line: l1 }, Term::Syntax { path: p2, line: l2 }) => same_path(p1, p2) && l1 == l2,
        (Term::TooDeep { path: p1, line: l1 }, Term::TooDeep { path: p2, line: l2 }) => same_path(p1, p2) && l1 == l2,
        (Term::OpenFailed { path: p1, line: l1, target: t1 }, Term::OpenFailed { path: p2, line: l2, target: t2 }) => same_path(p1, p2) && l1 == l2 && same_path(t1, t2),
        _ => false,
    }
}

/// Returns (key, detail) mismatches.
pub fn compare(exp: &Expected, obs: &Result<Observed, String>) -> Vec<(String, String)> {
    let mut v = Vec::new();
    let o = match obs {
        Err(p) => return vec![(panic_key(p), format!("panic: {p}"))],
        Ok(o) => o,
    };
    if o.runaway {
        v.push(("runaway".into(), "more than 10000 lines".into()));
    }
    if o.after_end > 0 {
        v.push(("yield-after-end".into(), format!("{} items after the error / end", o.after_end)));
    }
    for (i, e) in exp.lines.iter().enumerate() {
        let Some(g) = o.lines.get(i) else { break };
        let mut what = Vec::new();
        if !same_path(&e.path, &g.path) {
            what.push("path");
        }
        if e.rec.line != g.rec.line {
            what.push("line");
        }
        if e.rec.owner != g.rec.owner {
            what.push("owner");
        }
        if e.rec.ttl != g.rec.ttl {
            what.push("ttl");
        }
        if e.rec.class != g.rec.class {
            what.push("class");
        }
        if e.rec.typ != g.rec.typ || e.rec.rdata != g.rec.rdata {
            what.push("rdata");
        }
        if !what.is_empty() {
            v.push((format!("record:{}", what.join("+")), format!("line {i}: expected {} {:?}, observed {} {:?}", e.path.display(), e.rec.to_json().to_string(), g.path.display(), g.rec.to_json().to_string())));
            break;
        }
    }
    if v.is_empty() && exp.lines.len() != o.lines.len() {
        v.push((format!("count:{}", exp.term.class()), format!("{} lines expected, {} observed (expected end {:?}, observed end {:?})", exp.lines.len(), o.lines.len(), exp.term, o.term)));
    }
    if !term_eq(&exp.term, &o.term) {
        v.push((format!("end:{}->{}", exp.term.class(), o.term.class()), format!("expected end {:?}, observed {:?}", exp.term, o.term)));
    }
    v
}

// ------------------------------------------------------------ file system

static DIR_COUNTER: AtomicUsize = AtomicUsize::new(0);
static DIRS: Mutex<Vec<PathBuf>> = Mutex::new(Vec::new());

fn base() -> PathBuf {
    PathBuf::from(std::env::var("QVERIF_WORK").unwrap_or_else(|_| "/var/tmp/qverif".into()))
}

fn new_dir(tag: &str) -> PathBuf {
    let n = DIR_COUNTER.fetch_add(1, Ordering::Relaxed);
    let d = base().join(format!("c25-{}-{tag}{n}", std::process::id()));
    let _ = std::fs::remove_dir_all(&d);
    std::fs::create_dir_all(&d).unwrap_or_else(|e| {
        eprintln!("MACHINERY: cannot create {}: {e}", d.display());
        std::process::exit(3)
    });
    DIRS.lock().unwrap().push(d.clone());
    d
}

pub fn cleanup() {
    for d in DIRS.lock().unwrap().drain(..) {
        let _ = std::fs::remove_dir_all(d);
    }
}

fn write_file(f: &FileSpec) {
    if let Some(p) = f.store.parent() {
        let _ = std::fs::create_dir_all(p);
    }
    std::fs::write(&f.store, render_file(f)).unwrap_or_else(|e| {
        eprintln!("MACHINERY: cannot write {}: {e}", f.store.display());
        std::process::exit(3)
    });
}

// --------------------------------------------------------------- library

/// The six context-relevant items.
fn alphabet() -> Vec<It> {
    vec![
        It::Rec { owner: Own::Rel("r".into()), ttl: Some(5), class: Some(1) },
        It::Rec { owner: Own::Blank, ttl: None, class: None },
        It::Rec { owner: Own::At, ttl: Some(6), class: Some(3) },
        It::Origin(Nm::Rel("s".into())),
        It::Origin(Nm::Abs("p.".into())),
        It::Ttl(9),
    ]
}

/// All item sequences of length <= n (shortest first; index 0 = empty).
fn bodies(n: usize) -> Vec<Vec<It>> {
    let a = alphabet();
    let mut out = Vec::new();
    qvlib::enumerate::for_each_seq_upto(a.len(), n, |s| {
        out.push(s.iter().map(|i| a[*i].clone()).collect());
        true
    });
    out
}

fn origins() -> Vec<Option<Nm>> {
    vec![None, Some(Nm::Rel("i".into())), Some(Nm::Abs("q.".into()))]
}

pub struct Lib {
    pub dir: PathBuf,
    pub world: World,
    /// leaf file indices: [0..43) = bodies(2) in order, then specials
    pub leaves: Vec<usize>,
    pub n_plain_leaves: usize,
    /// mid files: (file index, leaf position used)
    pub mids: Vec<(usize, usize)>,
    /// depth chain d0..d6 (d6 has no include), cycles
    pub chain: Vec<usize>,
    pub cyc1: usize,
    pub cyc2: usize,
}

fn inc(text: &str, origin: Option<Nm>) -> It {
    It::Include { text: text.as_bytes().to_vec(), denotes: text.as_bytes().to_vec(), origin }
}

pub fn build_lib() -> Lib {
    let dir = new_dir("lib");
    let mut world = World { files: Vec::new(), by_path: HashMap::new() };
    let mut leaves = Vec::new();
    for (k, b) in bodies(2).into_iter().enumerate() {
        leaves.push(world.add(FileSpec { id: format!("l{k}"), store: dir.join(format!("l{k}.zone")), body: b, final_newline: true }));
    }
    let n_plain_leaves = leaves.len();
    let a = alphabet();
    let specials: Vec<(Vec<It>, bool)> = vec![
        (vec![It::Bogus], true),
        (vec![a[0].clone(), It::Bogus], true),
        (vec![It::Bogus, a[0].clone()], true),
        (vec![a[0].clone()], false),
        (vec![a[1].clone()], false),
        (vec![a[5].clone()], false),
        (vec![a[3].clone()], false),
        (vec![It::Empty, a[2].clone(), It::Empty, a[1].clone()], true),
    ];
    for (k, (b, nl)) in specials.into_iter().enumerate() {
        leaves.push(world.add(FileSpec { id: format!("x{k}"), store: dir.join(format!("x{k}.zone")), body: b, final_newline: nl }));
    }
    // mid files: pre (<=1) ++ include leaf [origin] ++ post (<=1); the leaf
    // is referenced by its bare name, i.e. relative to the mid file.
    let small = bodies(1);
    let mut mids = Vec::new();
    let mut k = 0;
    for pre in &small {
        for (lp, li) in leaves.iter().enumerate() {
            let leaf_name = world.files[*li].store.file_name().unwrap().to_str().unwrap().to_string();
            for o in origins() {
                for post in &small {
                    let mut body = pre.clone();
                    body.push(inc(&leaf_name, o.clone()));
                    body.extend(post.iter().cloned());
                    let i = world.add(FileSpec { id: format!("m{k}"), store: dir.join(format!("m{k}.zone")), body, final_newline: true });
                    mids.push((i, lp));
                    k += 1;
                }
            }
        }
    }
    // depth chain
    let mut chain = Vec::new();
    for d in 0..7 {
        let mut body = vec![It::Rec { owner: Own::Abs(format!("c{d}.")), ttl: Some(1), class: Some(1) }];
        if d < 6 {
            body.push(inc(&format!("d{}.zone", d + 1), None));
        }
        body.push(It::Rec { owner: Own::Blank, ttl: None, class: None });
        chain.push(world.add(FileSpec { id: format!("d{d}"), store: dir.join(format!("d{d}.zone")), body, final_newline: true }));
    }
    let rec = It::Rec { owner: Own::Abs("y.".into()), ttl: Some(2), class: Some(1) };
    let cyc1 = world.add(FileSpec { id: "cyc1".into(), store: dir.join("cyc1.zone"), body: vec![rec.clone(), inc("cyc1.zone", None), rec.clone()], final_newline: true });
    let cyc2 = world.add(FileSpec { id: "cyc2".into(), store: dir.join("cyc2.zone"), body: vec![rec.clone(), inc("cyc3.zone", None)], final_newline: true });
    world.add(FileSpec { id: "cyc3".into(), store: dir.join("cyc3.zone"), body: vec![inc("./cyc2.zone", Some(Nm::Abs("z.".into()))), rec.clone()], final_newline: true });
    for f in &world.files {
        write_file(f);
    }
    Lib { dir, world, leaves, n_plain_leaves, mids, chain, cyc1, cyc2 }
}

/// Per-worker directory: root file, decoys, path-family files.
pub struct Work {
    pub dir: PathBuf,
    pub world: World,
    root: std::fs::File,
    root_len: std::cell::Cell<usize>,
}

impl Work {
    /// Rewrites the root file. To keep the per-case cost at one `pwrite`, the
    /// file is padded with empty lines to a multiple of 256 octets (empty
    /// lines denote nothing) and only truncated when that size changes.
    pub fn write_root(&self, content: &[u8]) {
        use std::os::unix::fs::FileExt;
        let padded = (content.len() / 256 + 1) * 256;
        let mut buf = Vec::with_capacity(padded);
        buf.extend_from_slice(content);
        buf.resize(padded, b'\n');
        if self.root_len.get() != padded {
            self.root.set_len(padded as u64).expect("truncate root file");
            self.root_len.set(padded);
        }
        self.root.write_all_at(&buf, 0).expect("write root file");
    }
}

thread_local! {
    static WORK: RefCell<Option<Rc<Work>>> = const { RefCell::new(None) };
}

fn path_family_files(dir: &Path) -> Vec<FileSpec> {
    let rec = |o: &str| It::Rec { owner: Own::Abs(o.into()), ttl: Some(3), class: Some(1) };
    let obs = It::Rec { owner: Own::Blank, ttl: None, class: None };
    let mut v = Vec::new();
    for (id, rel) in [("Pa", "a.zone"), ("Psa", "sub/a.zone"), ("Pb", "b.zone"), ("Psb", "sub/b.zone"), ("Psp", "sp ace.zone"), ("Pdc", "deep/er/c.zone"), ("Pdb", "deep/er/b.zone"), ("Pdeb", "deep/b.zone")] {
        v.push(FileSpec { id: id.into(), store: dir.join(rel), body: vec![rec(&format!("{id}.")), obs.clone()], final_newline: true });
    }
    v
}

fn work(lib: &Lib) -> Rc<Work> {
    WORK.with(|w| {
        let mut w = w.borrow_mut();
        if w.is_none() {
            let dir = new_dir("w");
            let mut world = World { files: Vec::new(), by_path: HashMap::new() };
            // decoys: same names as the leaves, in the root's directory
            for li in &lib.leaves {
                let name = lib.world.files[*li].store.file_name().unwrap().to_owned();
                let f = FileSpec { id: "DECOY".into(), store: dir.join(name), body: vec![It::Rec { owner: Own::Abs("decoy.".into()), ttl: Some(1), class: Some(1) }], final_newline: true };
                write_file(&f);
                world.add(f);
            }
            for f in path_family_files(&dir) {
                write_file(&f);
                world.add(f);
            }
            let root = std::fs::OpenOptions::new().create(true).truncate(true).read(true).write(true).open(dir.join("root.zone")).expect("create root file");
            *w = Some(Rc::new(Work { dir, world, root, root_len: std::cell::Cell::new(0) }));
        }
        w.as_ref().unwrap().clone()
    })
}

// ------------------------------------------------------------ case runner

fn it_json(it: &It) -> Value {
    json!(format!("{it:?}"))
}

pub struct Case<'a> {
    pub fam: &'a str,
    pub root_body: Vec<It>,
    pub max_depth: usize,
}

fn run_case(l: &mut Local, watch: &Watch, wk: &Work, lib: &Lib, extra: Option<&FileSpec>, case: &Case) {
    let root = FileSpec { id: "R".into(), store: wk.dir.join("root.zone"), body: case.root_body.clone(), final_newline: true };
    let mut extras = vec![&root];
    extras.extend(extra);
    let env = Env { extras, wk: &wk.world, lib: &lib.world };
    let exp = expected(&env, case.max_depth);
    let bytes = render_file(&root);
    l.tick();
    watch.enter("json", hang_json(case, &bytes, wk, lib).as_bytes());
    wk.write_root(&bytes);
    let obs = observe(&root.store, case.max_depth);
    let mut mism = compare(&exp, &obs);
    // the statement's own relation, where it can be written down
    if let (Some(flat), Ok(o)) = (&exp.flat, &obs) {
        let fp = zf::parse_bytes(flat);
        match fp {
            Ok(p) if p.err.is_none() => {
                let a: Vec<(&WName, u32, u16, u16, &Vec<u8>)> = p.recs.iter().map(|r| (&r.owner, r.ttl, r.class, r.typ, &r.rdata)).collect();
                let b: Vec<(&WName, u32, u16, u16, &Vec<u8>)> = o.lines.iter().map(|x| (&x.rec.owner, x.rec.ttl, x.rec.class, x.rec.typ, &x.rec.rdata)).collect();
                if a != b {
                    mism.push(("flatten-mismatch".into(), format!("the flattened file yields {} records, the include tree {}", a.len(), b.len())));
                }
            }
            other => mism.push(("flatten-unparsable".into(), format!("the flattened equivalent did not parse: {:?}", other.map(|p| p.err)))),
        }
    }
    watch.leave();
    let n = exp.lines.len().min(6);
    l.outcome(&format!("{} n={} end={}{}", case.fam, n, exp.term.class(), if exp.flat.is_some() { " +flat" } else { "" }), || {
        json!({"root": String::from_utf8_lossy(&bytes), "max_depth": case.max_depth})
    });
    for (k, d) in &mism {
        crate::report(l, k, || case_json(case, &env, &exp, &obs, d));
    }
}

fn hang_json(case: &Case, root_bytes: &[u8], wk: &Work, lib: &Lib) -> String {
    format!(
        "{{\"family\":\"hang\",\"from\":\"{}\",\"max_depth\":{},\"root\":\"{}\",\"work_dir\":\"{}\",\"lib_dir\":\"{}\"}}",
        case.fam,
        case.max_depth,
        hex(root_bytes),
        wk.dir.display(),
        lib.dir.display()
    )
}

fn case_json(case: &Case, env: &Env, exp: &Expected, obs: &Result<Observed, String>, why: &str) -> Value {
    // Replay needs the whole tree: every file reachable from the root.
    let root = env.extras[0].clone();
    let mut files = Vec::new();
    let mut todo = vec![root.clone()];
    let mut seen: Vec<PathBuf> = Vec::new();
    while let Some(f) = todo.pop() {
        if seen.contains(&f.store) {
            continue;
        }
        seen.push(f.store.clone());
        let rel = f.store.strip_prefix(base()).unwrap_or(&f.store).to_path_buf();
        files.push(json!({"at": rel.to_string_lossy(), "content": hex(&render_file(&f)), "text": String::from_utf8_lossy(&render_file(&f))}));
        let dir = f.store.parent().unwrap().to_path_buf();
        for it in &f.body {
            if let It::Include { denotes, .. } = it {
                // both the correct target and any decoy of the same name
                let t = normalize(&dir.join(Path::new(OsStr::from_bytes(denotes))));
                let name = t.file_name().map(|n| n.to_owned());
                for g in env.all_files() {
                    if normalize(&g.store) == t || (g.id == "DECOY" && g.store.file_name().map(|n| n.to_owned()) == name) {
                        todo.push(g.clone());
                    }
                }
            }
        }
    }
    json!({
        "family": case.fam,
        "why": why,
        "max_depth": case.max_depth,
        "base": base().to_string_lossy(),
        "root": root.store.strip_prefix(base()).unwrap_or(&root.store).to_string_lossy(),
        "files": files,
        "root_items": case.root_body.iter().map(it_json).collect::<Vec<_>>(),
        "expected": {"lines": exp.lines.iter().map(|e| json!({"path": e.path.strip_prefix(base()).unwrap_or(&e.path).to_string_lossy(), "rec": e.rec.to_json()})).collect::<Vec<_>>(), "end": format!("{:?}", exp.term)},
        "observed": match obs { Ok(o) => json!({"lines": o.lines.iter().map(|e| json!({"path": e.path.to_string_lossy(), "rec": e.rec.to_json()})).collect::<Vec<_>>(), "end": format!("{:?}", o.term)}), Err(p) => json!({"panic": p}) },
    })
}

// --------------------------------------------------------------- families

#[derive(Clone)]
enum Unit {
    /// root = preamble ++ pre ++ [include leaf (origin)] ++ post, for every
    /// leaf in `leaves` and every post in bodies(post_len)
    S1 { preamble: usize, pre: Vec<It>, origin: usize, leaves: Vec<usize>, post_len: usize },
    /// root = preamble ++ pre ++ [include l1 (o1)] ++ mid ++ [include l2 (o2)] ++ post
    S2 { preamble: usize, pre: Vec<It>, o1: usize, l1: usize, l2s: Vec<usize>, post_len: usize },
    /// root = preamble ++ pre ++ [include mid-file (origin)] ++ post
    S3 { preamble: usize, pre: Vec<It>, origins: Vec<usize>, mids: Vec<usize>, post_len: usize },
    Paths { p1: usize },
    Depth,
}

/// Root context before the enumerated items: 0 nothing, 1 origin only,
/// 2 origin + a record (owner, TTL and class known).
fn preamble_items(kind: usize) -> Vec<It> {
    match kind {
        0 => vec![],
        1 => vec![It::Origin(Nm::Abs("e.".into()))],
        _ => vec![It::Origin(Nm::Abs("e.".into())), It::Rec { owner: Own::Rel("z".into()), ttl: Some(4), class: Some(1) }],
    }
}

/// Spellings of a path from a file in directory `from` (absolute) to the
/// file `to` (absolute): (text as written, octets denoted).
fn spellings(from: &Path, to: &Path) -> Vec<(Vec<u8>, Vec<u8>)> {
    let rel = pathdiff(from, to);
    let rel_s = rel.to_str().unwrap().to_string();
    let abs_s = to.to_str().unwrap().to_string();
    let mut v: Vec<(Vec<u8>, Vec<u8>)> = Vec::new();
    let esc = |s: &str| s.replace(' ', "\\ ");
    let dec = |s: &str| s.replace(' ', "\\032");
    v.push((esc(&rel_s).into_bytes(), rel_s.clone().into_bytes()));
    v.push((format!("\"{rel_s}\"").into_bytes(), rel_s.clone().into_bytes()));
    v.push((esc(&format!("./{rel_s}")).into_bytes(), format!("./{rel_s}").into_bytes()));
    v.push((dec(&abs_s).into_bytes(), abs_s.clone().into_bytes()));
    v.push((format!("\"{abs_s}\"").into_bytes(), abs_s.clone().into_bytes()));
    // every octet of the file name as \DDD
    let all_dec: String = rel_s.bytes().map(|b| format!("\\{b:03}")).collect();
    v.push((all_dec.into_bytes(), rel_s.into_bytes()));
    v
}

/// Relative path from directory `from` to file `to` (both absolute, lexical).
fn pathdiff(from: &Path, to: &Path) -> PathBuf {
    let f: Vec<_> = from.components().collect();
    let t: Vec<_> = to.components().collect();
    let mut i = 0;
    while i < f.len() && i < t.len() - 1 && f[i] == t[i] {
        i += 1;
    }
    let mut out = PathBuf::new();
    for _ in i..f.len() {
        out.push("..");
    }
    for c in &t[i..] {
        out.push(c.as_os_str());
    }
    out
}

pub fn run(ctx: &'static Ctx) -> ! {
    let watch = Watch::start(ctx, "exploration", RULE);
    watch.on_exit(Box::new(cleanup));
    if let Some(case) = ctx.replay_case() {
        replay(ctx, case.clone());
        cleanup();
        watch.stop();
        watch::finish_static(ctx, "exploration", RULE, false);
    }
    let quick = ctx.quick();
    let lib = build_lib();
    let lib_name = lib.dir.file_name().unwrap().to_str().unwrap().to_string();
    ctx.set_extra("library_files", json!(lib.world.files.len()));
    let b2 = bodies(2);
    let b1 = bodies(1);
    let by_len = |n: usize| if n >= 2 { &b2 } else { &b1 };
    let orig = origins();
    // leaf positions: [0, 7) bodies of <= 1 item, [0, 43) bodies of <= 2
    // items, [43, ..) the special bodies (syntax error, no final newline, ...)
    let lp_small: Vec<usize> = (0..b1.len()).collect();
    let lp_special: Vec<usize> = (lib.n_plain_leaves..lib.leaves.len()).collect();
    let lp_all: Vec<usize> = (0..lib.leaves.len()).collect();
    let lp_quick: Vec<usize> = lp_small.iter().chain(lp_special.iter()).copied().collect();
    let mids_with = |lps: &Vec<usize>| -> Vec<usize> { (0..lib.mids.len()).filter(|m| lps.contains(&lib.mids[*m].1)).collect() };
    let all_origins: Vec<usize> = (0..orig.len()).collect();
    let mut units: Vec<Unit> = Vec::new();
    let chunked = |v: Vec<usize>, n: usize| -> Vec<Vec<usize>> { v.chunks(n).map(|c| c.to_vec()).collect() };
    for preamble in [0usize, 1, 2] {
        // S1
        for pre in &b2 {
            for origin in 0..orig.len() {
                units.push(Unit::S1 { preamble, pre: pre.clone(), origin, leaves: if quick { lp_quick.clone() } else { lp_all.clone() }, post_len: 2 });
            }
        }
        if preamble == 0 {
            continue; // without any context most S2/S3 roots fail at their first item
        }
        for pre in &b1 {
            // S2
            for o1 in 0..orig.len() {
                if quick {
                    for l1 in &lp_small {
                        units.push(Unit::S2 { preamble, pre: pre.clone(), o1, l1: *l1, l2s: lp_small.clone(), post_len: 1 });
                    }
                } else {
                    for l1 in &lp_all {
                        units.push(Unit::S2 { preamble, pre: pre.clone(), o1, l1: *l1, l2s: lp_small.clone(), post_len: 1 });
                    }
                    for l1 in &lp_small {
                        units.push(Unit::S2 { preamble, pre: pre.clone(), o1, l1: *l1, l2s: lp_special.clone(), post_len: 1 });
                    }
                }
            }
            // S3
            if quick {
                for c in chunked(mids_with(&lp_small), 49) {
                    units.push(Unit::S3 { preamble, pre: pre.clone(), origins: all_origins.clone(), mids: c, post_len: 1 });
                }
                for c in chunked(mids_with(&lp_special), 98) {
                    units.push(Unit::S3 { preamble, pre: pre.clone(), origins: vec![0], mids: c, post_len: 1 });
                }
            } else {
                for c in chunked(mids_with(&lp_all), 49) {
                    units.push(Unit::S3 { preamble, pre: pre.clone(), origins: all_origins.clone(), mids: c, post_len: 1 });
                }
                for c in chunked(mids_with(&lp_small), 21) {
                    units.push(Unit::S3 { preamble, pre: pre.clone(), origins: all_origins.clone(), mids: c, post_len: 2 });
                }
            }
        }
    }
    for p1 in 0..64 {
        units.push(Unit::Paths { p1 });
    }
    units.push(Unit::Depth);
    let n = units.len();
    units.rotate_left((ctx.seed as usize) % n);

    let leaf_ref = |lp: usize| -> String {
        let f = &lib.world.files[lib.leaves[lp]];
        format!("../{lib_name}/{}", f.store.file_name().unwrap().to_str().unwrap())
    };
    ctx.par_for_each(&units, |l, u| {
        let wk = work(&lib);
        match u {
            Unit::S1 { preamble, pre, origin, leaves, post_len } => {
                for lp in leaves {
                    for post in by_len(*post_len) {
                        let mut body = preamble_items(*preamble);
                        body.extend(pre.iter().cloned());
                        body.push(inc(&leaf_ref(*lp), orig[*origin].clone()));
                        body.extend(post.iter().cloned());
                        run_case(l, watch, &wk, &lib, None, &Case { fam: "flow/S1", root_body: body, max_depth: 1 });
                    }
                }
            }
            Unit::S2 { preamble, pre, o1, l1, l2s, post_len } => {
                for mid in &b1 {
                    for o2 in &orig {
                        for l2 in l2s {
                            for post in by_len(*post_len) {
                                let mut body = preamble_items(*preamble);
                                body.extend(pre.iter().cloned());
                                body.push(inc(&leaf_ref(*l1), orig[*o1].clone()));
                                body.extend(mid.iter().cloned());
                                body.push(inc(&leaf_ref(*l2), o2.clone()));
                                body.extend(post.iter().cloned());
                                run_case(l, watch, &wk, &lib, None, &Case { fam: "flow/S2", root_body: body, max_depth: 1 });
                            }
                        }
                    }
                }
            }
            Unit::S3 { preamble, pre, origins, mids, post_len } => {
                for mp in mids {
                    let mf = &lib.world.files[lib.mids[*mp].0];
                    let mref = format!("../{lib_name}/{}", mf.store.file_name().unwrap().to_str().unwrap());
                    for origin in origins {
                        for post in by_len(*post_len) {
                            let mut body = preamble_items(*preamble);
                            body.extend(pre.iter().cloned());
                            body.push(inc(&mref, orig[*origin].clone()));
                            body.extend(post.iter().cloned());
                            run_case(l, watch, &wk, &lib, None, &Case { fam: "flow/S3", root_body: body, max_depth: 2 });
                        }
                    }
                }
            }
            Unit::Paths { p1 } => paths_family(l, watch, &wk, &lib, *p1),
            Unit::Depth => depth_family(l, watch, &wk, &lib, &lib_name),
        }
    });
    cleanup();
    ctx.assume("the reference interpreter's reading of RFC 1035 s5.1 $INCLUDE: context inherited, origin scoped, everything else carried back; documented fs::Error path/line semantics");
    watch.stop();
    watch::finish_static(ctx, "exploration", RULE, true)
}

/// root -> X -> Y over path spellings. `p1` selects the (X, spelling) pair
/// for the first level so that the family spreads over workers.
fn paths_family(l: &mut Local, watch: &Watch, wk: &Work, lib: &Lib, p1: usize) {
    let d = &wk.dir;
    let obs = It::Rec { owner: Own::Blank, ttl: None, class: None };
    let head = It::Rec { owner: Own::Abs("h.".into()), ttl: Some(8), class: Some(3) };
    // level-1 targets (from the root's directory)
    let xs = ["a.zone", "sub/a.zone", "sp ace.zone", "deep/er/c.zone", "missing.zone", "sub/missing.zone"];
    let mut firsts: Vec<(usize, Vec<u8>, Vec<u8>)> = Vec::new();
    for (xi, x) in xs.iter().enumerate() {
        for (text, den) in spellings(d, &d.join(x)) {
            firsts.push((xi, text, den));
        }
    }
    if p1 >= firsts.len() {
        return;
    }
    let (xi, text, den) = firsts[p1].clone();
    // plain: root includes X, X has no further include
    let body = vec![head.clone(), It::Include { text: text.clone(), denotes: den.clone(), origin: None }, obs.clone()];
    run_case(l, watch, wk, lib, None, &Case { fam: "paths/1", root_body: body, max_depth: 1 });
    // siblings: after X has been included and left (possibly from another
    // directory), a second include in the root file must still resolve
    // against the root's directory.
    for z in ["b.zone", "sub/b.zone", "deep/b.zone", "a.zone", "nowhere.zone"] {
        for (t3, d3) in spellings(d, &d.join(z)) {
            let body = vec![
                head.clone(),
                It::Include { text: text.clone(), denotes: den.clone(), origin: None },
                obs.clone(),
                It::Include { text: t3, denotes: d3, origin: None },
                obs.clone(),
            ];
            run_case(l, watch, wk, lib, None, &Case { fam: "paths/siblings", root_body: body, max_depth: 1 });
        }
    }
    // two levels: X' = a file stored next to X that includes Y by several
    // spellings; X' is written per case into the worker directory, so the
    // root includes X' instead of X.
    if xs[xi].contains("missing") {
        return;
    }
    let xdir = d.join(xs[xi]).parent().unwrap().to_path_buf();
    let ys = ["b.zone", "sub/b.zone", "deep/er/b.zone", "deep/b.zone", "a.zone", "nowhere.zone"];
    for y in ys {
        // Y named relative to X's directory: both "the file called y next to
        // X" (bare name: must resolve in X's directory, where a same-named
        // file may or may not exist) and explicit spellings of d/y.
        let bare = Path::new(y).file_name().unwrap().to_str().unwrap().to_string();
        let mut second: Vec<(Vec<u8>, Vec<u8>)> = vec![(bare.clone().into_bytes(), bare.into_bytes())];
        second.extend(spellings(&xdir, &d.join(y)));
        for (t2, d2) in second {
            let xp = FileSpec {
                id: "X".into(),
                store: xdir.join("x-prime.zone"),
                body: vec![It::Rec { owner: Own::Abs("x.".into()), ttl: Some(7), class: Some(1) }, It::Include { text: t2, denotes: d2, origin: None }, obs.clone()],
                final_newline: true,
            };
            write_file(&xp);
            let xtext = pathdiff(d, &xp.store).to_str().unwrap().to_string();
            let body = vec![head.clone(), inc(&xtext, None), obs.clone()];
            run_case(l, watch, wk, lib, Some(&xp), &Case { fam: "paths/2", root_body: body, max_depth: 2 });
            // the same, and back in the root a second include by a bare name:
            // two returns (from Y to X', from X' to the root) lie before it
            let body = vec![head.clone(), inc(&xtext, None), obs.clone(), inc("b.zone", None), obs.clone()];
            run_case(l, watch, wk, lib, Some(&xp), &Case { fam: "paths/2+sibling", root_body: body, max_depth: 2 });
            let _ = std::fs::remove_file(&xp.store);
        }
    }
}

fn depth_family(l: &mut Local, watch: &Watch, wk: &Work, lib: &Lib, lib_name: &str) {
    let r = |i: usize| format!("../{lib_name}/{}", lib.world.files[i].store.file_name().unwrap().to_str().unwrap());
    let obs = It::Rec { owner: Own::Blank, ttl: None, class: None };
    let head = It::Rec { owner: Own::Abs("h.".into()), ttl: Some(8), class: Some(3) };
    let mut roots: Vec<Vec<It>> = vec![vec![head.clone(), obs.clone()]];
    for s in 0..lib.chain.len() {
        roots.push(vec![head.clone(), inc(&r(lib.chain[s]), None), obs.clone()]);
        // re-entry: a shallow include after a deep one and vice versa
        for s2 in 0..lib.chain.len() {
            roots.push(vec![inc(&r(lib.chain[s]), None), inc(&r(lib.chain[s2]), Some(Nm::Abs("w.".into()))), obs.clone()]);
        }
    }
    roots.push(vec![head.clone(), inc(&r(lib.cyc1), None), obs.clone()]);
    roots.push(vec![head.clone(), inc(&r(lib.cyc2), None), obs.clone()]);
    roots.push(vec![head.clone(), inc("root.zone", None), obs.clone()]);
    for body in roots {
        for max_depth in 0..=8 {
            run_case(l, watch, wk, lib, None, &Case { fam: "depth", root_body: body.clone(), max_depth });
        }
    }
}

// ------------------------------------------------------------------ replay

fn replace_all(hay: &[u8], from: &[u8], to: &[u8]) -> Vec<u8> {
    let mut out = Vec::with_capacity(hay.len());
    let mut i = 0;
    while i < hay.len() {
        if !from.is_empty() && hay[i..].starts_with(from) {
            out.extend_from_slice(to);
            i += from.len();
        } else {
            out.push(hay[i]);
            i += 1;
        }
    }
    out
}

/// A case recorded by the watchdog: only the root file is known; the library
/// and the worker directory are rebuilt (their contents are deterministic).
fn replay_hang(ctx: &'static Ctx, case: &Value) {
    let lib = build_lib();
    let wk = work(&lib);
    let old_lib = Path::new(case["lib_dir"].as_str().unwrap_or("")).file_name().map(|n| n.to_os_string()).unwrap_or_default();
    let new_lib = lib.dir.file_name().unwrap().to_os_string();
    let mut root = qvlib::unhex(case["root"].as_str().unwrap_or(""));
    root = replace_all(&root, old_lib.as_bytes(), new_lib.as_bytes());
    root = replace_all(&root, case["work_dir"].as_str().unwrap_or("\0").as_bytes(), wk.dir.to_str().unwrap().as_bytes());
    wk.write_root(&root);
    let max_depth = case["max_depth"].as_u64().unwrap_or(0) as usize;
    let path = wk.dir.join("root.zone");
    eprintln!("replay: root file =\n{}", String::from_utf8_lossy(&root));
    match watch::run_with_timeout(move || observe(&path, max_depth).map(|o| (o.lines.len(), format!("{:?}", o.term)))) {
        None => {
            eprintln!("replay: did not terminate within {} s", watch::LIMIT.as_secs());
            ctx.violation("hang", case.clone());
        }
        Some(Err(p)) => {
            eprintln!("replay: panic {p}");
            ctx.violation(&panic_key(&p), case.clone());
        }
        Some(Ok((n, end))) => eprintln!("replay: terminated with {n} lines, end {end}"),
    }
}

fn replay(ctx: &'static Ctx, case: Value) {
    if case["family"] == "hang" {
        replay_hang(ctx, &case);
        return;
    }
    // Rebuild the recorded tree below a fresh directory and re-run; the
    // expected value is the one stored in the case (the oracle's output for
    // that tree), with paths re-rooted.
    let dir = new_dir("replay");
    let empty = Vec::new();
    let old_base = format!("{}/", case["base"].as_str().unwrap_or("/var/tmp/qverif"));
    let new_base = format!("{}/", dir.display());
    for f in case["files"].as_array().unwrap_or(&empty) {
        let at = dir.join(f["at"].as_str().unwrap_or("x"));
        if let Some(p) = at.parent() {
            let _ = std::fs::create_dir_all(p);
        }
        // absolute include paths written in the files point into the old tree
        let content = replace_all(&qvlib::unhex(f["content"].as_str().unwrap_or("")), old_base.as_bytes(), new_base.as_bytes());
        std::fs::write(&at, content).expect("write replay file");
    }
    let root = dir.join(case["root"].as_str().unwrap_or("root.zone"));
    let max_depth = case["max_depth"].as_u64().unwrap_or(0) as usize;
    let r2 = root.clone();
    let Some(obs) = watch::run_with_timeout(move || observe(&r2, max_depth).map(|o| (o.lines.iter().map(|e| (e.path.clone(), e.rec.clone())).collect::<Vec<_>>(), format!("{:?}", o.term), o.after_end))) else {
        ctx.violation("hang", case.clone());
        eprintln!("replay: did not terminate");
        return;
    };
    let strip = |p: &Path| normalize(p).strip_prefix(&dir).map(|x| x.to_path_buf()).unwrap_or_else(|_| p.to_path_buf());
    let exp_lines: Vec<(PathBuf, Flat)> = case["expected"]["lines"].as_array().unwrap_or(&empty).iter().map(|e| (normalize(Path::new(e["path"].as_str().unwrap_or(""))), Flat::from_json(&e["rec"]))).collect();
    let exp_end = case["expected"]["end"].as_str().unwrap_or("").to_string();
    let end_class = |s: &str| s.split(|c: char| !c.is_alphanumeric()).next().unwrap_or("").to_string();
    match obs {
        Err(p) => {
            eprintln!("replay: panic {p}");
            ctx.violation(&panic_key(&p), case.clone());
        }
        Ok((lines, end, after)) => {
            let got: Vec<(PathBuf, Flat)> = lines.iter().map(|(p, r)| (strip(p), r.clone())).collect();
            eprintln!("replay: expected {} lines, end {}", exp_lines.len(), exp_end);
            eprintln!("replay: observed {} lines, end {}", got.len(), end);
            for (i, (p, r)) in got.iter().enumerate() {
                eprintln!("replay:   [{i}] {} {}", p.display(), r.to_json());
            }
            let mut bad = Vec::new();
            if got != exp_lines {
                bad.push("record".to_string());
            }
            if end_class(&end) != end_class(&exp_end) {
                bad.push(format!("end:{}->{}", end_class(&exp_end), end_class(&end)));
            }
            if after > 0 {
                bad.push("yield-after-end".into());
            }
            for b in &bad {
                eprintln!("replay: VIOLATION {b}");
                ctx.violation(b, case.clone());
            }
            if bad.is_empty() {
                eprintln!("replay: conforms");
            }
        }
    }
}
