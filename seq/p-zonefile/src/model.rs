//! Semantic record model shared by C23/C24/C25: what a zone file *denotes*.
//!
//! Everything here is written from RFC 1035 §3.3/§5, RFC 2782, RFC 3596,
//! RFC 3597 §5 and RFC 2181 §8; nothing calls quandary.

use qvlib::wire::{self, WName};

/// RDATA in structured (presentation-level) form.
#[derive(Clone, Debug, PartialEq, Eq)]
pub enum Rd {
    /// NS MD MF CNAME MB MG MR PTR
    Name(WName),
    A([u8; 4]),
    /// Chaosnet A: LAN name + 16-bit address (written in octal).
    ChA(WName, u16),
    Soa(WName, WName, [u32; 5]),
    /// address, protocol, ports
    Wks([u8; 4], u8, Vec<u16>),
    Hinfo(Vec<u8>, Vec<u8>),
    Minfo(WName, WName),
    Mx(u16, WName),
    Txt(Vec<Vec<u8>>),
    Aaaa([u8; 16]),
    Srv(u16, u16, u16, WName),
    /// Unknown class/type combination: only the RFC 3597 form exists.
    Opaque(Vec<u8>),
}

impl Rd {
    /// Wire-format RDATA (names uncompressed), per the defining RFCs.
    pub fn wire(&self) -> Vec<u8> {
        let mut o = Vec::new();
        match self {
            Rd::Name(n) => o.extend_from_slice(n),
            Rd::A(a) => o.extend_from_slice(a),
            Rd::ChA(n, a) => {
                o.extend_from_slice(n);
                o.extend_from_slice(&a.to_be_bytes());
            }
            Rd::Soa(m, r, v) => {
                o.extend_from_slice(m);
                o.extend_from_slice(r);
                for x in v {
                    o.extend_from_slice(&x.to_be_bytes());
                }
            }
            Rd::Wks(a, p, ports) => {
                o.extend_from_slice(a);
                o.push(*p);
                // RFC 1035 §3.4.2: "The first bit corresponds to port 0, the
                // second to port 1, etc."; bit 0 is the most significant bit
                // of an octet (RFC 1035 §2.3.2), as in BIND/ldns/Wireshark.
                if let Some(max) = ports.iter().max() {
                    let mut bm = vec![0u8; *max as usize / 8 + 1];
                    for p in ports {
                        bm[*p as usize / 8] |= 0x80 >> (*p % 8);
                    }
                    o.extend_from_slice(&bm);
                }
            }
            Rd::Hinfo(a, b) => {
                o.push(a.len() as u8);
                o.extend_from_slice(a);
                o.push(b.len() as u8);
                o.extend_from_slice(b);
            }
            Rd::Minfo(a, b) => {
                o.extend_from_slice(a);
                o.extend_from_slice(b);
            }
            Rd::Mx(p, n) => {
                o.extend_from_slice(&p.to_be_bytes());
                o.extend_from_slice(n);
            }
            Rd::Txt(ss) => {
                for s in ss {
                    o.push(s.len() as u8);
                    o.extend_from_slice(s);
                }
            }
            Rd::Aaaa(a) => o.extend_from_slice(a),
            Rd::Srv(p, w, port, n) => {
                o.extend_from_slice(&p.to_be_bytes());
                o.extend_from_slice(&w.to_be_bytes());
                o.extend_from_slice(&port.to_be_bytes());
                o.extend_from_slice(n);
            }
            Rd::Opaque(b) => o.extend_from_slice(b),
        }
        o
    }
}

/// A record as a zone file denotes it.
#[derive(Clone, Debug, PartialEq, Eq)]
pub struct Rec {
    pub owner: WName,
    pub ttl: u32,
    pub class: u16,
    pub typ: u16,
    pub rd: Rd,
}

impl Rec {
    pub fn new(owner: &str, ttl: u32, class: u16, typ: u16, rd: Rd) -> Rec {
        Rec { owner: wire::wname(owner), ttl, class, typ, rd }
    }
}

/// RFC 2181 §8: a TTL with the most significant bit set is treated as zero.
pub fn effective_ttl(t: u32) -> u32 {
    if t > 0x7fff_ffff {
        0
    } else {
        t
    }
}

/// What the parser is expected to yield / did yield for one record.
#[derive(Clone, Debug, PartialEq, Eq)]
pub struct Flat {
    pub line: usize,
    pub owner: WName,
    pub ttl: u32,
    pub class: u16,
    pub typ: u16,
    pub rdata: Vec<u8>,
}

impl Flat {
    pub fn to_json(&self) -> qvlib::Value {
        qvlib::json!({
            "line": self.line, "owner": wire::name_text(&self.owner), "owner_hex": qvlib::hex(&self.owner),
            "ttl": self.ttl, "class": self.class, "type": self.typ, "rdata": qvlib::hex(&self.rdata),
        })
    }
    pub fn from_json(v: &qvlib::Value) -> Flat {
        Flat {
            line: v["line"].as_u64().unwrap_or(0) as usize,
            owner: qvlib::unhex(v["owner_hex"].as_str().unwrap_or("")),
            ttl: v["ttl"].as_u64().unwrap_or(0) as u32,
            class: v["class"].as_u64().unwrap_or(0) as u16,
            typ: v["type"].as_u64().unwrap_or(0) as u16,
            rdata: qvlib::unhex(v["rdata"].as_str().unwrap_or("")),
        }
    }
}

// ------------------------------------------------------------ mnemonics

pub fn type_mnemonic(t: u16) -> Option<&'static str> {
    Some(match t {
        1 => "A",
        2 => "NS",
        3 => "MD",
        4 => "MF",
        5 => "CNAME",
        6 => "SOA",
        7 => "MB",
        8 => "MG",
        9 => "MR",
        11 => "WKS",
        12 => "PTR",
        13 => "HINFO",
        14 => "MINFO",
        15 => "MX",
        16 => "TXT",
        28 => "AAAA",
        33 => "SRV",
        _ => return None,
    })
}

pub fn class_mnemonic(c: u16) -> Option<&'static str> {
    Some(match c {
        1 => "IN",
        3 => "CH",
        4 => "HS",
        _ => return None,
    })
}

// --------------------------------------------------- text: domain names

/// How one octet of a label is written.
fn push_label_octet(out: &mut Vec<u8>, ch: u8) {
    match ch {
        b'.' | b'\\' | b';' | b'(' | b')' | b'"' | b'@' | b'$' => {
            out.push(b'\\');
            out.push(ch);
        }
        0x21..=0x7e => out.push(ch),
        _ => out.extend_from_slice(format!("\\{ch:03}").as_bytes()),
    }
}

/// Optional forced escape of one octet of the first label.
#[derive(Clone, Copy, Debug, PartialEq, Eq)]
pub enum NameEsc {
    None,
    /// first octet of the first label as `\DDD`
    DecFirst,
    /// first octet of the first label as `\c` (only if `c` is not a digit)
    ChrFirst,
    /// last octet of the first label as `\DDD`
    DecLast,
}

/// Text of the first `nlabels` labels of `name`, dot-separated, without a
/// trailing dot.
fn labels_text(name: &[u8], nlabels: usize, esc: NameEsc) -> Option<Vec<u8>> {
    let ls = wire::labels(name);
    let mut out = Vec::new();
    for (i, l) in ls.iter().take(nlabels).enumerate() {
        if i > 0 {
            out.push(b'.');
        }
        for (j, &ch) in l.iter().enumerate() {
            let forced = i == 0
                && match esc {
                    NameEsc::None => false,
                    NameEsc::DecFirst | NameEsc::ChrFirst => j == 0,
                    NameEsc::DecLast => j + 1 == l.len(),
                };
            if forced {
                match esc {
                    NameEsc::ChrFirst => {
                        if ch.is_ascii_digit() {
                            return None;
                        }
                        out.push(b'\\');
                        out.push(ch);
                    }
                    _ => out.extend_from_slice(format!("\\{ch:03}").as_bytes()),
                }
            } else {
                push_label_octet(&mut out, ch);
            }
        }
    }
    Some(out)
}

/// Absolute text form ("a.b." or ".").
pub fn name_abs(name: &[u8], esc: NameEsc) -> Option<Vec<u8>> {
    let n = wire::labels(name).len();
    if n == 0 {
        return if esc == NameEsc::None { Some(b".".to_vec()) } else { None };
    }
    let mut t = labels_text(name, n, esc)?;
    t.push(b'.');
    Some(t)
}

/// Text of `name` relative to `origin` (no trailing dot); None unless `name`
/// is strictly below `origin` with an octet-identical suffix.
pub fn name_rel(name: &[u8], origin: &[u8], esc: NameEsc) -> Option<Vec<u8>> {
    if name.len() <= origin.len() || !name.ends_with(origin) {
        return None;
    }
    // The suffix must start on a label boundary.
    let cut = name.len() - origin.len();
    let ls = wire::labels(name);
    let mut pos = 0;
    let mut k = 0;
    while pos < cut {
        pos += 1 + ls[k].len();
        k += 1;
    }
    if pos != cut || k == 0 {
        return None;
    }
    labels_text(name, k, esc)
}

// ------------------------------------------- text: <character-string>s

#[derive(Clone, Copy, Debug, PartialEq, Eq)]
pub enum StrForm {
    /// "..." with `"` and `\` escaped, other printable ASCII (including
    /// space, `;`, `(`, `)`) raw, the rest as `\DDD`
    Quoted,
    /// no quotes; field-ending and special characters as `\c`, non-printable
    /// as `\DDD`; impossible for the empty string
    Unquoted,
    /// unquoted, with the first character written as `\X` whatever it is
    /// (legal for every non-digit character, RFC 1035 s5.1)
    UnquotedEscFirst,
    /// "..." with every octet as `\DDD`
    QuotedAllDec,
    /// "..." with every octet raw except `"` and `\` (so raw TAB, CR, LF and
    /// octets >= 0x80 may appear: RFC 1035 §5.1 "any character can occur")
    QuotedRaw,
}

/// Returns the text and the number of raw line feeds it contains.
pub fn charstr_text(s: &[u8], form: StrForm) -> Option<(Vec<u8>, usize)> {
    let mut o = Vec::new();
    let mut lfs = 0;
    match form {
        StrForm::Quoted => {
            o.push(b'"');
            for &ch in s {
                match ch {
                    b'"' | b'\\' => {
                        o.push(b'\\');
                        o.push(ch);
                    }
                    0x20..=0x7e => o.push(ch),
                    _ => o.extend_from_slice(format!("\\{ch:03}").as_bytes()),
                }
            }
            o.push(b'"');
        }
        StrForm::Unquoted => {
            if s.is_empty() {
                return None;
            }
            for &ch in s {
                match ch {
                    b' ' | b'\t' | b'(' | b')' | b';' | b'"' | b'\\' => {
                        o.push(b'\\');
                        o.push(ch);
                    }
                    0x21..=0x7e => o.push(ch),
                    _ => o.extend_from_slice(format!("\\{ch:03}").as_bytes()),
                }
            }
        }
        StrForm::UnquotedEscFirst => {
            let first = *s.first()?;
            if first.is_ascii_digit() || !(0x21..=0x7e).contains(&first) {
                return None;
            }
            o.push(b'\\');
            o.push(first);
            let (rest, _) = if s.len() > 1 { charstr_text(&s[1..], StrForm::Unquoted)? } else { (Vec::new(), 0) };
            o.extend_from_slice(&rest);
        }
        StrForm::QuotedAllDec => {
            o.push(b'"');
            for &ch in s {
                o.extend_from_slice(format!("\\{ch:03}").as_bytes());
            }
            o.push(b'"');
        }
        StrForm::QuotedRaw => {
            o.push(b'"');
            for &ch in s {
                match ch {
                    b'"' | b'\\' => {
                        o.push(b'\\');
                        o.push(ch);
                    }
                    b'\n' => {
                        lfs += 1;
                        o.push(ch);
                    }
                    _ => o.push(ch),
                }
            }
            o.push(b'"');
        }
    }
    Some((o, lfs))
}

// ------------------------------------------------------ text: addresses

pub fn ipv4_text(a: &[u8; 4]) -> String {
    format!("{}.{}.{}.{}", a[0], a[1], a[2], a[3])
}

#[derive(Clone, Copy, Debug, PartialEq, Eq)]
pub enum Ip6Form {
    /// RFC 5952: lower case, longest run of >= 2 zero groups as "::"
    Canonical,
    /// eight groups of four digits
    Full,
    /// canonical, upper case
    Upper,
    /// six full groups followed by a dotted quad (RFC 4291 §2.2 form 3)
    V4Tail,
}

pub fn ipv6_text(a: &[u8; 16], form: Ip6Form) -> String {
    let g: Vec<u16> = (0..8).map(|i| u16::from_be_bytes([a[2 * i], a[2 * i + 1]])).collect();
    match form {
        Ip6Form::Full => g.iter().map(|x| format!("{x:04x}")).collect::<Vec<_>>().join(":"),
        Ip6Form::V4Tail => {
            let head = g[..6].iter().map(|x| format!("{x:x}")).collect::<Vec<_>>().join(":");
            format!("{head}:{}.{}.{}.{}", a[12], a[13], a[14], a[15])
        }
        Ip6Form::Canonical | Ip6Form::Upper => {
            // longest zero run of length >= 2
            let (mut best, mut best_len) = (8, 0);
            let mut i = 0;
            while i < 8 {
                if g[i] == 0 {
                    let mut j = i;
                    while j < 8 && g[j] == 0 {
                        j += 1;
                    }
                    if j - i > best_len && j - i >= 2 {
                        best = i;
                        best_len = j - i;
                    }
                    i = j;
                } else {
                    i += 1;
                }
            }
            let s = if best_len == 0 {
                g.iter().map(|x| format!("{x:x}")).collect::<Vec<_>>().join(":")
            } else {
                let l = g[..best].iter().map(|x| format!("{x:x}")).collect::<Vec<_>>().join(":");
                let r = g[best + best_len..].iter().map(|x| format!("{x:x}")).collect::<Vec<_>>().join(":");
                format!("{l}::{r}")
            };
            if form == Ip6Form::Upper {
                s.to_ascii_uppercase()
            } else {
                s
            }
        }
    }
}

// ------------------------------------------------------------- WKS aid

/// True iff `got` differs from `expected` (both WKS RDATA) exactly by the bit
/// order inside every bitmap octet (address and protocol equal): the known
/// finding `wks-bitmap-lsb-first`.
pub fn wks_explained_by_bit_reversal(expected: &[u8], got: &[u8]) -> bool {
    if expected.len() != got.len() || expected.len() <= 5 || expected[..5] != got[..5] {
        return false;
    }
    expected != got && expected[5..].iter().zip(&got[5..]).all(|(e, g)| e.reverse_bits() == *g)
}
