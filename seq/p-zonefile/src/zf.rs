//! Thin adapter around the code under test: runs quandary's zone-file parser
//! on a byte slice and flattens what it yields into plain data.

use crate::model::Flat;
use quandary::zone_file::{LineContent, Parser};
use qvlib::catch;
use std::io::Cursor;

#[derive(Debug, Default)]
pub struct Parsed {
    pub recs: Vec<Flat>,
    /// (line, path octets, origin wire) of every `$INCLUDE` line yielded
    pub includes: Vec<(usize, Vec<u8>, Option<Vec<u8>>)>,
    /// (error kind as text, line) of the first error
    pub err: Option<(String, usize)>,
    /// number of items yielded after the first error (must be 0)
    pub after_err: usize,
    /// items yielded in total
    pub items: usize,
    /// the iterator yielded more items than the input has octets + 2
    pub runaway: bool,
    /// order of yields: 'R' record, 'I' include, 'E' error
    pub trace: String,
}

fn kind_text(e: &quandary::zone_file::Error) -> (String, usize) {
    match e {
        quandary::zone_file::Error::Io(_) => ("Io".to_string(), 0),
        quandary::zone_file::Error::Syntax(d) => {
            let k = format!("{:?}", d.kind());
            // keep the variant name only
            let k = k.split(|c| c == '(' || c == ' ' || c == '{').next().unwrap_or("").to_string();
            (k, d.line())
        }
    }
}

/// Parses `bytes` with `quandary::zone_file::Parser`. `Err` = panic message.
pub fn parse_bytes(bytes: &[u8]) -> Result<Parsed, String> {
    catch(|| {
        let mut out = Parsed::default();
        let bound = bytes.len() + 2;
        let mut p = Parser::new(Cursor::new(bytes));
        loop {
            match p.next() {
                None => break,
                Some(Ok(line)) => {
                    out.items += 1;
                    match line.content {
                        LineContent::Record(r) => {
                            out.trace.push('R');
                            out.recs.push(Flat {
                                line: line.number,
                                owner: r.owner.wire_repr().to_vec(),
                                ttl: u32::from(r.ttl),
                                class: u16::from(r.class),
                                typ: u16::from(r.rr_type),
                                rdata: r.rdata.octets().to_vec(),
                            });
                        }
                        LineContent::Include(inc) => {
                            out.trace.push('I');
                            out.includes.push((line.number, inc.path.clone(), inc.origin.as_ref().map(|o| o.wire_repr().to_vec())));
                        }
                    }
                }
                Some(Err(e)) => {
                    out.items += 1;
                    out.trace.push('E');
                    out.err = Some(kind_text(&e));
                    // "after its first error it yields nothing more"
                    for _ in 0..3 {
                        if p.next().is_some() {
                            out.after_err += 1;
                        }
                    }
                    break;
                }
            }
            if out.items > bound {
                out.runaway = true;
                break;
            }
        }
        out
    })
}
