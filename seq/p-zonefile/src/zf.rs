//! Thin adapter around the code under test: runs quandary's zone-file parser
//! on a byte slice and flattens what it yields into plain data.

use crate::model::Flat;
use quandary::zone_file::{LineContent, Parser};
use qvlib::catch;
use std::io::Cursor;

#[derive(Debug, Default)]
pub struct Parsed {
    pub recs: Vec<Flat>,
    /// (line, path octets, origin wire) of every `$INCLUDE` line yielded
    pub includes: Vec<(usize, Vec<u8>, Option<Vec<u8>>)>,
    /// (error kind as text, line) of the first error
    pub err: Option<(String, usize)>,
    /// number of items yielded after the first error (must be 0)
    pub after_err: usize,
    /// items yielded in total
    pub items: usize,
    /// the iterator yielded more items than the input has octets + 2
    pub runaway: bool,
    /// order of yields: 'R' record, 'I' include, 'E' error
    pub trace: String,
}

fn kind_text(e: &quandary::zone_file::Error) -> (String, usize) {
    match e {
        quandary::zone_file::Error::Io(_) => ("Io".to_string(), 0),
        quandary::zone_file::Error::Syntax(d) => {
            let k = format!("{:?}", d.kind());
            // keep the variant name only
            let k = k.split(|c| c == '(' || c == ' ' || c == '{').next().unwrap_or("").to_string();
            (k, d.line())
        }
    }
}

/// A stream that delivers `data` in the given piece sizes (short reads), and
/// whatever is left in one piece once the list is used up. A piece larger
/// than the caller's buffer is continued by the next call.
pub struct Pieces<'a> {
    data: &'a [u8],
    pos: usize,
    pieces: &'a [usize],
    next: usize,
    left_in_piece: usize,
    pub calls: usize,
}

impl<'a> Pieces<'a> {
    pub fn new(data: &'a [u8], pieces: &'a [usize]) -> Pieces<'a> {
        Pieces { data, pos: 0, pieces, next: 0, left_in_piece: 0, calls: 0 }
    }
}

impl std::io::Read for Pieces<'_> {
    fn read(&mut self, buf: &mut [u8]) -> std::io::Result<usize> {
        self.calls += 1;
        if self.left_in_piece == 0 {
            self.left_in_piece = match self.pieces.get(self.next) {
                Some(n) => *n,
                None => usize::MAX,
            };
            self.next += 1;
        }
        let n = self.left_in_piece.min(buf.len()).min(self.data.len() - self.pos);
        buf[..n].copy_from_slice(&self.data[self.pos..self.pos + n]);
        self.pos += n;
        if self.left_in_piece != usize::MAX {
            self.left_in_piece -= n;
        }
        if self.pos == self.data.len() {
            self.left_in_piece = 0;
        }
        Ok(n)
    }
}

/// A stream that delivers `data` in pieces of `piece` octets and answers its
/// `fail_at`-th call (counted from 0) with an I/O error of kind `kind`,
/// consuming nothing; every other call succeeds (a transient fault: the
/// stream would carry on if asked again).
pub struct FailAt<'a> {
    data: &'a [u8],
    pos: usize,
    piece: usize,
    fail_at: usize,
    kind: std::io::ErrorKind,
    pub calls: usize,
}

impl std::io::Read for FailAt<'_> {
    fn read(&mut self, buf: &mut [u8]) -> std::io::Result<usize> {
        let call = self.calls;
        self.calls += 1;
        if call == self.fail_at {
            return Err(std::io::Error::new(self.kind, "injected"));
        }
        let n = self.piece.min(buf.len()).min(self.data.len() - self.pos);
        buf[..n].copy_from_slice(&self.data[self.pos..self.pos + n]);
        self.pos += n;
        Ok(n)
    }
}

/// Parses `bytes` from a stream whose `fail_at`-th read fails with `kind`.
pub fn parse_failing(bytes: &[u8], piece: usize, fail_at: usize, kind: std::io::ErrorKind) -> Result<Parsed, String> {
    parse_stream(FailAt { data: bytes, pos: 0, piece, fail_at, kind, calls: 0 }, bytes.len())
}

/// Parses `bytes` with `quandary::zone_file::Parser`. `Err` = panic message.
pub fn parse_bytes(bytes: &[u8]) -> Result<Parsed, String> {
    parse_stream(Cursor::new(bytes), bytes.len())
}

/// Same, from a stream that delivers the octets in the given piece sizes.
pub fn parse_pieces(bytes: &[u8], pieces: &[usize]) -> Result<Parsed, String> {
    parse_stream(Pieces::new(bytes, pieces), bytes.len())
}

fn parse_stream<R: std::io::Read>(stream: R, len: usize) -> Result<Parsed, String> {
    catch(move || {
        let mut out = Parsed::default();
        let bound = len + 2;
        let mut p = Parser::new(stream);
        loop {
            match p.next() {
                None => break,
                Some(Ok(line)) => {
                    out.items += 1;
                    match line.content {
                        LineContent::Record(r) => {
                            out.trace.push('R');
                            out.recs.push(Flat {
                                line: line.number,
                                owner: r.owner.wire_repr().to_vec(),
                                ttl: u32::from(r.ttl),
                                class: u16::from(r.class),
                                typ: u16::from(r.rr_type),
                                rdata: r.rdata.octets().to_vec(),
                            });
                        }
                        LineContent::Include(inc) => {
                            out.trace.push('I');
                            out.includes.push((line.number, inc.path.clone(), inc.origin.as_ref().map(|o| o.wire_repr().to_vec())));
                        }
                    }
                }
                Some(Err(e)) => {
                    out.items += 1;
                    out.trace.push('E');
                    out.err = Some(kind_text(&e));
                    // "after its first error it yields nothing more"
                    for _ in 0..3 {
                        if p.next().is_some() {
                            out.after_err += 1;
                        }
                    }
                    break;
                }
            }
            if out.items > bound {
                out.runaway = true;
                break;
            }
        }
        out
    })
}
