//! C24 — the zone-file parser is total and only yields valid records.
//!
//! Families (each enumerated completely):
//!  bytes   every octet string up to length n over 16 syntax-relevant octets,
//!          alone and after a context-setting prefix;
//!  soup    every sequence of up to d tokens from a 32-token menu of zone-file
//!          syntax, joined by single spaces and joined by nothing, alone and
//!          after the prefix;
//!  mutate  every truncation, single-octet deletion, insertion and
//!          replacement (20-octet alphabet) of valid files produced by C23's
//!          pretty-printer;
//!  limits  hand-built inputs at the size limits (64 KiB fields, 255/256
//!          octet names and strings, 65 535-octet RDATA, ...);
//!  generic every single-nibble / length mutation of valid generic RDATA.
//! Oracle: no panic; terminates (watchdog + at most len+2 items); nothing is
//! yielded after the first error; every yielded record has a valid absolute
//! owner, a type other than NULL/OPT/TSIG and RDATA accepted by the
//! independent validator qvlib::wire::rdata_valid for its class and type.

use crate::c23;
use crate::generic;
use crate::render::*;
use crate::watch::{self, Watch};
use crate::zf;
use qvlib::wire;
use qvlib::{hex, json, panic_key, unhex, Ctx, Local, Value};

pub const RULE: &str = "all octet strings <= n over 16 syntax octets; all token sequences <= d over a 32-token zone-file menu (space-joined and glued; bare and after a context prefix); every truncation / 1-octet deletion / insertion / replacement of pretty-printed valid files; size-limit inputs; valid files read from a stream whose k-th read fails once (every k, 7 error kinds, 4 piece sizes); 56 kB valid files of lookahead-heavy lines delivered in short reads (burst around the buffer size then 1-3 octet pieces, alternating, uniform); all single-nibble mutations of generic RDATA of every supported type. Oracle: no panic, termination (watchdog, <= len+2 items), nothing after the first Err, every yielded record has a valid absolute owner, type not in {NULL,OPT,TSIG}, RDATA valid per an independent per-type validator";

const ALPHABET: &[u8] = b"a0.@ \t\n\r();\"\\#$\xff";
const MUT_ALPHABET: &[u8] = b"a0.@ \t\n\r();\"\\#$\xff14fT";
const PREFIX: &[u8] = b"$ORIGIN o.\n$TTL 5\nx IN TXT x\n";

const TOKENS: &[&str] = &[
    "a", "@", ".", "IN", "CH", "A", "NS", "TXT", "MX", "SOA", "OPT", "NULL", "TSIG", "TYPE10", "TYPE65280", "1.2.3.4", "300", "(", ")", ";", "\"",
    "\\", "\\#", "0", "4", "0a000001", "$ORIGIN", "$TTL", "$INCLUDE", "\n", "\r\n", " ",
];

/// Checks one input; returns (outcome class, violations).
pub fn check_total(input: &[u8], got: &Result<zf::Parsed, String>) -> (String, Vec<(String, String)>) {
    let mut v = Vec::new();
    let p = match got {
        Err(e) => return ("panic".into(), vec![(panic_key(e), format!("panic: {e}"))]),
        Ok(p) => p,
    };
    if p.runaway {
        v.push(("runaway".into(), format!("more than {} items from {} octets", input.len() + 2, input.len())));
    }
    if p.after_err > 0 {
        v.push(("yield-after-error".into(), format!("{} items after the first error", p.after_err)));
    }
    for r in &p.recs {
        if !wire::is_valid_uncompressed_all(&r.owner) {
            v.push(("owner-not-absolute".into(), format!("owner octets {} are not a valid absolute name", hex(&r.owner))));
        }
        if matches!(r.typ, wire::t::NULL | wire::t::OPT | wire::t::TSIG) {
            v.push((format!("forbidden-type:{}", r.typ), format!("a record of type {} was yielded", r.typ)));
        }
        if !wire::rdata_valid(r.class, r.typ, &r.rdata) {
            v.push((format!("invalid-rdata-yielded:{}", r.typ), format!("RDATA {} is not valid for class {} type {}", hex(&r.rdata), r.class, r.typ)));
        }
    }
    let n = match p.recs.len() {
        0 => "0",
        1 => "1",
        _ => "2+",
    };
    let cls = format!("recs={n} inc={} end={}", if p.includes.is_empty() { "0" } else { "1+" }, p.err.as_ref().map(|e| e.0.as_str()).unwrap_or("EOF"));
    (cls, v)
}

fn eval(l: &mut Local, watch: &Watch, fam: &str, input: &[u8]) {
    l.tick();
    watch.enter("bytes", input);
    let got = zf::parse_bytes(input);
    watch.leave();
    let (cls, viol) = check_total(input, &got);
    l.outcome(&format!("{fam} {cls}"), || json!({"family": "bytes", "input": hex(input), "text": String::from_utf8_lossy(&input[..input.len().min(200)])}));
    for (k, d) in viol {
        crate::report(l, &k, || json!({"family": "bytes", "from": fam, "input": hex(input), "text": String::from_utf8_lossy(&input[..input.len().min(400)]), "why": d}));
    }
}

fn join_tokens(buf: &mut Vec<u8>, prefix: &[u8], toks: &[usize], spaced: bool) {
    buf.clear();
    buf.extend_from_slice(prefix);
    for (i, t) in toks.iter().enumerate() {
        let tok = TOKENS[*t].as_bytes();
        if spaced && i > 0 {
            let left = TOKENS[toks[i - 1]].as_bytes();
            if !left.ends_with(b"\n") && !tok.ends_with(b"\n") {
                buf.push(b' ');
            }
        }
        buf.extend_from_slice(tok);
    }
}

/// Seeds for the mutation family: pretty-printed valid files.
fn seeds(quick: bool) -> Vec<Vec<u8>> {
    let mut out: Vec<Vec<u8>> = Vec::new();
    let fams = c23::families(true);
    for sc in &fams[0].scenarios {
        if !sc.name.ends_with("/origin") {
            continue;
        }
        let cps = choice_points(sc);
        let mut push = |ch: &Choices| {
            if let Some(r) = render(sc, ch) {
                if r.bytes.len() <= 400 && !out.contains(&r.bytes) {
                    out.push(r.bytes);
                }
            }
        };
        if quick {
            push(&Choices::default());
            // the generic form of the middle record
            if let Some(cp) = cps.iter().find(|c| matches!(c.cp, Cp::RdForm(_))) {
                push(&Choices(vec![(cp.cp, 1)]));
            }
        } else {
            push(&Choices::default());
            for i in 0..cps.len() {
                for_each_choice_set(&cps, Some(i), 1, &mut |ch| push(ch));
            }
        }
    }
    out
}

fn big(parts: &[(&[u8], usize)]) -> Vec<u8> {
    let mut o = Vec::new();
    for (s, n) in parts {
        for _ in 0..*n {
            o.extend_from_slice(s);
        }
    }
    o
}

/// Inputs at the parser's size limits.
fn limit_inputs() -> Vec<(String, Vec<u8>)> {
    let mut v: Vec<(String, Vec<u8>)> = Vec::new();
    for n in [65535usize, 65536, 65537, 70000] {
        v.push((format!("ttl-field-{n}"), big(&[(b"a. ", 1), (b"0", n - 1), (b"1 IN A 1.2.3.4\n", 1)])));
        v.push((format!("class-field-{n}"), big(&[(b"a. 1 ", 1), (b"I", n), (b" A 1.2.3.4\n", 1)])));
        v.push((format!("type-field-{n}"), big(&[(b"a. 1 IN ", 1), (b"A", n), (b" 1.2.3.4\n", 1)])));
        v.push((format!("ipv4-field-{n}"), big(&[(b"a. 1 IN A ", 1), (b"1", n), (b"\n", 1)])));
        v.push((format!("rdlen-field-{n}"), big(&[(b"a. 1 IN TYPE65280 \\# ", 1), (b"0", n - 1), (b"1 00\n", 1)])));
        v.push((format!("dollar-ttl-field-{n}"), big(&[(b"$TTL ", 1), (b"0", n), (b"\na. IN A 1.2.3.4\n", 1)])));
        v.push((format!("include-path-{n}"), big(&[(b"$INCLUDE ", 1), (b"p", n), (b"\n", 1)])));
        v.push((format!("include-path-quoted-{n}"), big(&[(b"$INCLUDE \"", 1), (b"p", n), (b"\"\n", 1)])));
        v.push((format!("owner-field-{n}"), big(&[(b"a", n), (b" 1 IN A 1.2.3.4\n", 1)])));
        v.push((format!("directive-field-{n}"), big(&[(b"$", 1), (b"X", n), (b"\n", 1)])));
    }
    for n in [62usize, 63, 64] {
        v.push((format!("label-{n}"), big(&[(b"l", n), (b". 1 IN A 1.2.3.4\n", 1)])));
        v.push((format!("label-escaped-{n}"), big(&[(b"\\108", n), (b". 1 IN NS ", 1), (b"\\l", n), (b".\n", 1)])));
    }
    for last in [60usize, 61, 62] {
        // 3 x 64 + (last + 1) + 1 = 254 / 255 / 256 octets
        let name = big(&[(b"mmmmmmmmmmmmmmmmmmmmmmmmmmmmmmmmmmmmmmmmmmmmmmmmmmmmmmmmmmmmmmm.", 3), (b"n", last), (b".", 1)]);
        v.push((format!("name-{}", 193 + last + 1), big(&[(&name, 1), (b" 1 IN NS ", 1), (&name, 1), (b"\n", 1)])));
    }
    for k in [58usize, 59, 60] {
        // relative part 3 x 64 + (k + 1) octets, origin "o." adds 3: 254 / 255 / 256
        let rel = big(&[(b"mmmmmmmmmmmmmmmmmmmmmmmmmmmmmmmmmmmmmmmmmmmmmmmmmmmmmmmmmmmmmmm.", 3), (b"n", k)]);
        v.push((format!("name-via-origin-{}", 196 + k), big(&[(b"$ORIGIN o.\n$TTL 1\n", 1), (&rel, 1), (b" IN MX 1 ", 1), (&rel, 1), (b"\n", 1)])));
    }
    for n in [254usize, 255, 256, 1000] {
        v.push((format!("string-quoted-{n}"), big(&[(b"a. 1 IN TXT \"", 1), (b"s", n), (b"\"\n", 1)])));
        v.push((format!("string-unquoted-{n}"), big(&[(b"a. 1 IN HINFO ", 1), (b"s", n), (b" x\n", 1)])));
        v.push((format!("string-escaped-{n}"), big(&[(b"a. 1 IN TXT ", 1), (b"\\000", n), (b"\n", 1)])));
    }
    // TXT RDATA of 65 535 octets (255 x 256 + 255) fits; one more octet does not
    let q255 = big(&[(b" \"", 1), (b"s", 255), (b"\"", 1)]);
    v.push(("txt-65535".into(), big(&[(b"a. 1 IN TXT (", 1), (&q255, 255), (b" \"", 1), (b"s", 254), (b"\" )\n", 1)])));
    v.push(("txt-65536".into(), big(&[(b"a. 1 IN TXT (", 1), (&q255, 255), (b" \"", 1), (b"s", 255), (b"\" )\n", 1)])));
    v.push(("txt-many-empty".into(), big(&[(b"a. 1 IN TXT", 1), (b" \"\"", 70000), (b"\n", 1)])));
    for n in [65535usize, 65536] {
        v.push((format!("generic-{n}"), big(&[(format!("a. 1 IN TYPE65280 \\# {n} ").as_bytes(), 1), (b"ab", n.min(65535)), (b"\n", 1)])));
        v.push((format!("generic-words-{n}"), big(&[(format!("a. 1 IN TXT \\# {n} (").as_bytes(), 1), (b" 01ab\n", n.min(65535) / 2), (b" 00 )\n", 1)])));
    }
    v.push(("wks-port-65535".into(), b"a. 1 IN WKS 1.2.3.4 TCP 65535\n".to_vec()));
    v.push(("wks-port-65536".into(), b"a. 1 IN WKS 1.2.3.4 TCP 65536\n".to_vec()));
    v.push(("wks-70000-ports".into(), big(&[(b"a. 1 IN WKS 1.2.3.4 6", 1), (b" 1", 70000), (b"\n", 1)])));
    v.push(("long-comment".into(), big(&[(b"a. 1 IN A 1.2.3.4 ;", 1), (b"c", 100000), (b"\nb. 1 IN A 1.2.3.5\n", 1)])));
    v.push(("long-whitespace".into(), big(&[(b"a.", 1), (b" \t", 50000), (b"1 IN A 1.2.3.4\n", 1)])));
    v.push(("many-blank-lines".into(), big(&[(b"\n", 100000), (b"a. 1 IN A 1.2.3.4", 1)])));
    v.push(("many-crlf-in-parens".into(), big(&[(b"a. 1 IN A (", 1), (b"\r\n", 50000), (b"1.2.3.4 )\nb. 1 IN A 1.2.3.5\n", 1)])));
    v.push(("many-open-parens".into(), big(&[(b"a. 1 IN A ", 1), (b"(", 70000), (b"\n", 1)])));
    v.push(("many-close-parens".into(), big(&[(b")", 70000)])));
    v.push(("many-paren-pairs".into(), big(&[(b"a. 1 IN A ", 1), (b"( ) ", 30000), (b"1.2.3.4\n", 1)])));
    v.push(("many-records".into(), big(&[(b"a. 1 IN A 1.2.3.4\n", 20000)])));
    v.push(("many-errors".into(), big(&[(b"a.\n", 20000)])));
    v.push(("many-directives".into(), big(&[(b"$TTL 1\n$ORIGIN a.\n", 20000), (b"@ IN A 1.2.3.4\n", 1)])));
    v.push(("many-includes".into(), big(&[(b"$INCLUDE f\n", 20000)])));
    v.push(("cr-only".into(), big(&[(b"\r", 70000)])));
    v.push(("backslashes".into(), big(&[(b"\\", 70001)])));
    v.push(("quote-open-long".into(), big(&[(b"a. 1 IN TXT \"", 1), (b"\n", 70000)])));
    for ty in ["NULL", "OPT", "TSIG", "TYPE10", "TYPE41", "TYPE250", "null", "opt", "tsig", "type10", "Type41", "tYPE250", "TYPE010", "TYPE0041"] {
        for rd in ["\\# 0", "\\# 1 00", "\\# 16 00000000000000000000000000000000", "x", ""] {
            v.push((format!("forbidden-{ty}"), format!("a. 1 IN {ty} {rd}\nb. 1 ANY {ty} {rd}\n").into_bytes()));
        }
    }
    v
}

/// Large valid files for the trickle family: well over three times the
/// parser's initial buffer, so that the buffer is recycled several times, and
/// made of lines whose tokens need a lookahead of two or more octets (decimal
/// escapes, CRLF, `\#`, directives, quoted strings, parentheses).
fn trickle_inputs() -> Vec<(String, Vec<u8>)> {
    let lines: [(&str, &[u8]); 6] = [
        ("escape-owner", b"a\\065b.t. 60 IN A 192.0.2.1\n"),
        ("escape-string-crlf", b"x.t. 60 IN TXT \"a\\065\\\"b\" \\100x\r\n"),
        ("generic", b"x.t. 60 IN TYPE65280 \\# 2 abcd\n"),
        ("directives", b"$TTL 60\n$ORIGIN t.\nx IN A 192.0.2.1\n@ IN MX 1 x\n"),
        ("parens-crlf-comment", b"x.t. 60 IN TXT ( \"a\"\r\n \"b\" ) ; c\r\n"),
        ("include", b"$INCLUDE \"f\\065\" o.t.\r\n"),
    ];
    let mut v = Vec::new();
    for (name, line) in lines {
        for pad in 0..4usize {
            let mut input = vec![b';'; pad];
            if pad > 0 {
                input.push(b'\n');
            }
            while input.len() < 56_000 {
                input.extend_from_slice(line);
            }
            v.push((format!("{name}+{pad}"), input));
        }
    }
    // all line kinds interleaved
    let mut mixed = Vec::new();
    while mixed.len() < 56_000 {
        for (_, line) in lines {
            mixed.extend_from_slice(line);
        }
    }
    v.push(("mixed".into(), mixed));
    v
}

/// Read schedules for the trickle family: a first burst (around the initial
/// buffer size, or none) followed by tiny pieces, alternating bursts, and
/// uniform pieces.
fn trickle_schedules(len: usize) -> Vec<(String, Vec<usize>)> {
    let mut v: Vec<(String, Vec<usize>)> = Vec::new();
    for first in [0usize, 1, 8192, 16383, 16384, 16385, 20000, 32768] {
        for tiny in [1usize, 2, 3] {
            let mut p = Vec::new();
            if first > 0 {
                p.push(first);
            }
            p.extend(std::iter::repeat(tiny).take(len / tiny + 1));
            v.push((format!("burst-{first}-then-{tiny}s"), p));
        }
    }
    for (a, b) in [(16384usize, 1usize), (16383, 2), (4096, 1), (100, 1)] {
        let mut p = Vec::new();
        while p.iter().sum::<usize>() < len {
            p.push(a);
            p.push(b);
        }
        v.push((format!("alternating-{a}-{b}"), p));
    }
    for c in [5usize, 7, 4096, 16384] {
        v.push((format!("uniform-{c}"), vec![c; len / c + 1]));
    }
    v
}

fn trickle_one(l: &mut Local, name: &str, input: &[u8], sname: &str, pieces: &[usize]) -> bool {
    l.tick();
    let got = zf::parse_pieces(input, pieces);
    let (cls, viol) = check_total(input, &got);
    l.outcome(&format!("trickle {}: {cls}", name.split('+').next().unwrap_or(name)), || json!({"family": "trickle", "name": name, "schedule": sname, "len": input.len()}));
    let bad = !viol.is_empty();
    for (k, d) in viol {
        crate::report(l, &format!("trickle:{k}"), || json!({"family": "trickle", "name": name, "schedule": sname, "why": d}));
    }
    bad
}

/// I/O error kinds injected by the io-error family.
const IO_KINDS: [(&str, std::io::ErrorKind); 7] = [
    ("Other", std::io::ErrorKind::Other),
    ("Interrupted", std::io::ErrorKind::Interrupted),
    ("WouldBlock", std::io::ErrorKind::WouldBlock),
    ("TimedOut", std::io::ErrorKind::TimedOut),
    ("UnexpectedEof", std::io::ErrorKind::UnexpectedEof),
    ("InvalidData", std::io::ErrorKind::InvalidData),
    ("NotFound", std::io::ErrorKind::NotFound),
];
const IO_PIECES: [usize; 4] = [1, 5, 23, 1 << 20];

fn io_kind(name: &str) -> std::io::ErrorKind {
    IO_KINDS.iter().find(|(n, _)| *n == name).map(|(_, k)| *k).unwrap_or(std::io::ErrorKind::Other)
}

fn io_error_one(l: &mut Local, input: &[u8], piece: usize, fail_at: usize, kname: &str) {
    l.tick();
    let got = zf::parse_failing(input, piece, fail_at, io_kind(kname));
    let (cls, viol) = check_total(input, &got);
    l.outcome(&format!("io-error {kname}: {cls}"), || json!({"family": "io-error", "input": hex(input), "piece": piece, "fail_at": fail_at, "kind": kname}));
    for (k, d) in viol {
        crate::report(l, &format!("io-error:{k}"), || json!({"family": "io-error", "input": hex(input), "text": String::from_utf8_lossy(input), "piece": piece, "fail_at": fail_at, "kind": kname, "why": d}));
    }
}

pub fn run(ctx: &'static Ctx) -> ! {
    let watch = Watch::start(ctx, "exploration", RULE);
    if let Some(case) = ctx.replay_case() {
        replay(ctx, case.clone());
        watch.stop();
        watch::finish_static(ctx, "exploration", RULE, false);
    }
    let quick = ctx.quick();
    let prefixes: [&[u8]; 2] = [b"", PREFIX];

    // ---- bytes
    let n = ctx.pick(5, 6);
    ctx.set_extra("bytes_max_len", json!(n));
    let a = ALPHABET.len();
    let shards: Vec<(usize, usize, usize)> = (0..2).flat_map(|p| (0..a).flat_map(move |x| (0..a).map(move |y| (p, x, y)))).collect();
    ctx.par_for_each(&shards, |l, (p, x, y)| {
        let pre = prefixes[*p];
        let mut buf = Vec::with_capacity(64);
        if *x == 0 && *y == 0 {
            // lengths 0 and 1 once per prefix
            buf.extend_from_slice(pre);
            eval(l, watch, "bytes", &buf);
            for c in ALPHABET {
                buf.truncate(pre.len());
                buf.push(*c);
                eval(l, watch, "bytes", &buf);
            }
        }
        for rest in 0..=n - 2 {
            qvlib::enumerate::for_each_bytes_exact(ALPHABET, rest, |tail| {
                buf.clear();
                buf.extend_from_slice(pre);
                buf.push(ALPHABET[*x]);
                buf.push(ALPHABET[*y]);
                buf.extend_from_slice(tail);
                eval(l, watch, "bytes", &buf);
            });
        }
    });

    // ---- token soup
    let d = ctx.pick(4, 5);
    ctx.set_extra("soup_max_tokens", json!(d));
    ctx.set_extra("soup_tokens", json!(TOKENS.len()));
    let nt = TOKENS.len();
    let shards: Vec<(usize, bool, usize, usize)> =
        (0..2).flat_map(|p| [true, false].into_iter().flat_map(move |s| (0..nt).flat_map(move |x| (0..nt).map(move |y| (p, s, x, y))))).collect();
    ctx.par_for_each(&shards, |l, (p, spaced, x, y)| {
        let pre = prefixes[*p];
        let mut buf = Vec::with_capacity(128);
        let mut toks: Vec<usize> = Vec::with_capacity(8);
        if *x == 0 && *y == 0 {
            for t in 0..nt {
                join_tokens(&mut buf, pre, &[t], *spaced);
                eval(l, watch, "soup", &buf);
            }
        }
        for rest in 0..=d - 2 {
            qvlib::enumerate::for_each_seq_exact(nt, rest, |tail| {
                toks.clear();
                toks.push(*x);
                toks.push(*y);
                toks.extend_from_slice(tail);
                join_tokens(&mut buf, pre, &toks, *spaced);
                eval(l, watch, "soup", &buf);
                true
            });
        }
    });

    // ---- mutations of valid files
    let seeds = seeds(quick);
    ctx.set_extra("mutation_seeds", json!(seeds.len()));
    ctx.par_for_each(&seeds, |l, seed| {
        let mut buf = Vec::with_capacity(seed.len() + 1);
        for cut in 0..=seed.len() {
            eval(l, watch, "mutate", &seed[..cut]);
        }
        for i in 0..seed.len() {
            buf.clear();
            buf.extend_from_slice(&seed[..i]);
            buf.extend_from_slice(&seed[i + 1..]);
            eval(l, watch, "mutate", &buf);
            for c in MUT_ALPHABET {
                if *c != seed[i] {
                    buf.clear();
                    buf.extend_from_slice(seed);
                    buf[i] = *c;
                    eval(l, watch, "mutate", &buf);
                }
            }
        }
        for i in 0..=seed.len() {
            for c in MUT_ALPHABET {
                buf.clear();
                buf.extend_from_slice(&seed[..i]);
                buf.push(*c);
                buf.extend_from_slice(&seed[i..]);
                eval(l, watch, "mutate", &buf);
            }
        }
    });

    // ---- size limits
    let lim = limit_inputs();
    ctx.set_extra("limit_inputs", json!(lim.len()));
    ctx.par_for_each(&lim, |l, (name, input)| {
        l.tick();
        watch.enter("bytes", input);
        let got = zf::parse_bytes(input);
        watch.leave();
        let (cls, viol) = check_total(input, &got);
        l.outcome(&format!("limits {name}: {cls}"), || json!({"family": "limit", "name": name, "len": input.len()}));
        for (k, d) in viol {
            crate::report(l, &k, || json!({"family": "limit", "name": name, "why": d}));
        }
    });

    // ---- transient I/O errors: every valid seed file x piece size x every
    // read call failing once x error kind. The parser may or may not report
    // the fault, but after its first Err it yields nothing more.
    let io_seeds = self::seeds(true);
    let io_cases = std::sync::atomic::AtomicU64::new(0);
    ctx.par_for_each(&io_seeds, |l, input| {
        for piece in IO_PIECES {
            let calls = input.len() / piece + 3;
            for fail_at in 0..calls {
                for (kname, _) in IO_KINDS {
                    io_error_one(l, input, piece, fail_at, kname);
                    io_cases.fetch_add(1, std::sync::atomic::Ordering::Relaxed);
                }
            }
        }
    });
    ctx.set_extra("io_error_family", json!({"files": io_seeds.len(), "piece_sizes": IO_PIECES.to_vec(), "kinds": IO_KINDS.iter().map(|k| k.0).collect::<Vec<_>>(), "cases": io_cases.load(std::sync::atomic::Ordering::Relaxed)}));

    // ---- large files delivered in short reads
    let tr = trickle_inputs();
    let n_sched = trickle_schedules(tr[0].1.len()).len();
    ctx.set_extra("trickle", json!({"inputs": tr.len(), "schedules_per_input": n_sched, "input_octets": tr[0].1.len()}));
    ctx.par_for_each(&tr, |l, (name, input)| {
        for (sname, pieces) in trickle_schedules(input.len()) {
            trickle_one(l, name, input, &sname, &pieces);
        }
    });

    // ---- generic RDATA
    generic::run_family(ctx, watch, generic::Mode::Soundness);

    ctx.assume("qvlib::wire::rdata_valid is the reference for 'RDATA passes validation for its class and type'");
    watch.stop();
    watch::finish_static(ctx, "exploration", RULE, true)
}

fn replay(ctx: &'static Ctx, case: Value) {
    if case["family"] == "generic" {
        generic::replay(ctx, &case, generic::Mode::Soundness);
        return;
    }
    if case["family"] == "io-error" {
        let input = unhex(case["input"].as_str().unwrap_or(""));
        let mut l = ctx.local();
        io_error_one(&mut l, &input, case["piece"].as_u64().unwrap_or(1) as usize, case["fail_at"].as_u64().unwrap_or(0) as usize, case["kind"].as_str().unwrap_or("Other"));
        return;
    }
    if case["family"] == "trickle" {
        let name = case["name"].as_str().unwrap_or("");
        let sname = case["schedule"].as_str().unwrap_or("");
        let mut l = ctx.local();
        for (n, input) in trickle_inputs().into_iter().filter(|(n, _)| n == name) {
            for (sn, pieces) in trickle_schedules(input.len()).into_iter().filter(|(sn, _)| sn == sname) {
                let bad = trickle_one(&mut l, &n, &input, &sn, &pieces);
                eprintln!("replay: trickle {n} / {sn}: {}", if bad { "VIOLATION" } else { "conforms" });
            }
        }
        return;
    }
    let input: Vec<u8> = if case["family"] == "limit" {
        let name = case["name"].as_str().unwrap_or("");
        let why = case["why"].as_str().unwrap_or("");
        // several limit inputs may share a name (forbidden-*): replay all of them
        let all: Vec<Vec<u8>> = limit_inputs().into_iter().filter(|(n, _)| n == name).map(|(_, i)| i).collect();
        let mut hit = false;
        for input in all {
            let i2 = input.clone();
            match watch::run_with_timeout(move || zf::parse_bytes(&i2)) {
                None => {
                    ctx.violation("hang", case.clone());
                    hit = true;
                }
                Some(got) => {
                    for (k, d) in check_total(&input, &got).1 {
                        eprintln!("replay: VIOLATION {k}: {d}");
                        ctx.violation(&k, case.clone());
                        hit = true;
                    }
                }
            }
        }
        if !hit {
            eprintln!("replay: limit input {name} conforms (recorded: {why})");
        }
        return;
    } else {
        unhex(case["input"].as_str().or(case["file"].as_str()).unwrap_or(""))
    };
    let i2 = input.clone();
    let Some(got) = watch::run_with_timeout(move || zf::parse_bytes(&i2)) else {
        eprintln!("replay: parser did not terminate within {} s", watch::LIMIT.as_secs());
        ctx.violation("hang", case.clone());
        return;
    };
    let (cls, viol) = check_total(&input, &got);
    eprintln!("replay: input = {:?}", String::from_utf8_lossy(&input[..input.len().min(400)]));
    eprintln!("replay: outcome = {cls}; observed = {:?}", got.as_ref().map(|p| (&p.recs, &p.err, &p.trace)));
    for (k, d) in &viol {
        eprintln!("replay: VIOLATION {k}: {d}");
        ctx.violation(k, case.clone());
    }
    if viol.is_empty() {
        eprintln!("replay: conforms");
    }
}
