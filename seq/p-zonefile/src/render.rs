//! Independent RFC 1035 §5 pretty-printer with an explicit, enumerable set
//! of *presentation choices*.
//!
//! A `Scenario` is a list of semantic items (records, `$ORIGIN`, `$TTL`).
//! `choice_points` lists every place where the printer may deviate from the
//! default rendering; `render` prints the scenario under a given set of
//! deviations and returns the octets together with the records (and line
//! numbers) the file denotes, or `None` if that combination of deviations is
//! not expressible (e.g. "omit the TTL" where no default applies).
//!
//! Semantics used by the printer (the oracle): RFC 1035 §5.1 (blank owner =
//! previous owner; omitted class = previous class; relative names are
//! completed with the current origin; `@` = origin; `( )` continue a line;
//! `;` starts a comment), RFC 2308 §4 (omitted TTL = the last `$TTL` if there
//! was one, else the previous record's TTL), RFC 3597 §5 (`\#`, TYPEn,
//! CLASSn), RFC 2181 §8 (TTL > 2^31-1 is treated as 0).

use crate::model::*;
use qvlib::wire::WName;

#[derive(Clone, Debug)]
pub enum Item {
    Rec(Rec),
    Origin(WName),
    Ttl(u32),
}

#[derive(Clone, Debug)]
pub struct Scenario {
    pub name: String,
    pub items: Vec<Item>,
    /// Reduced choice points (no whitespace/parenthesis/field-level choices)
    /// for items whose index is listed here.
    pub reduced: Vec<usize>,
}

#[derive(Clone, Copy, Debug, PartialEq, Eq)]
pub enum Cp {
    Own(usize),
    OwnEsc(usize),
    Ttl(usize),
    Cls(usize),
    Ord(usize),
    Typ(usize),
    RdForm(usize),
    Fld(usize, usize),
    Paren(usize),
    Ws(usize),
    Eol(usize),
    Pre(usize),
    DCase(usize),
    DName(usize),
    DEol(usize),
}

#[derive(Clone, Copy, Debug)]
pub struct CpInfo {
    pub cp: Cp,
    /// number of non-default alternatives (alt ids 1..=nalts)
    pub nalts: usize,
}

/// Maximum number of gap anchors a parenthesis may open at.
pub const MAX_ANCHOR: usize = 12;
const PAREN_ALTS: usize = 4 * MAX_ANCHOR + 4;

/// One native RDATA field.
#[derive(Clone, Debug)]
enum Field {
    Name(WName),
    Str(Vec<u8>),
    Int(u64),
    Octal(u16),
    Ip4([u8; 4]),
    Ip6([u8; 16]),
    Proto(u8),
}

fn native_fields(rd: &Rd) -> Option<Vec<Field>> {
    Some(match rd {
        Rd::Name(n) => vec![Field::Name(n.clone())],
        Rd::A(a) => vec![Field::Ip4(*a)],
        Rd::ChA(n, a) => vec![Field::Name(n.clone()), Field::Octal(*a)],
        Rd::Soa(m, r, v) => {
            let mut f = vec![Field::Name(m.clone()), Field::Name(r.clone())];
            f.extend(v.iter().map(|x| Field::Int(*x as u64)));
            f
        }
        Rd::Wks(a, p, ports) => {
            let mut f = vec![Field::Ip4(*a), Field::Proto(*p)];
            f.extend(ports.iter().map(|x| Field::Int(*x as u64)));
            f
        }
        Rd::Hinfo(a, b) => vec![Field::Str(a.clone()), Field::Str(b.clone())],
        Rd::Minfo(a, b) => vec![Field::Name(a.clone()), Field::Name(b.clone())],
        Rd::Mx(p, n) => vec![Field::Int(*p as u64), Field::Name(n.clone())],
        Rd::Txt(ss) => ss.iter().map(|s| Field::Str(s.clone())).collect(),
        Rd::Aaaa(a) => vec![Field::Ip6(*a)],
        Rd::Srv(p, w, port, n) => vec![Field::Int(*p as u64), Field::Int(*w as u64), Field::Int(*port as u64), Field::Name(n.clone())],
        Rd::Opaque(_) => return None,
    })
}

fn field_nalts(f: &Field) -> usize {
    match f {
        Field::Name(_) => 2, // 1 relative/@, 2 \DDD on the first octet
        Field::Str(_) => 4,  // 1 unquoted, 2 quoted all-decimal, 3 quoted raw, 4 unquoted with the first character as \\X
        Field::Ip6(_) => 3,  // 1 full, 2 upper case, 3 dotted-quad tail
        Field::Proto(_) => 2, // 1 mnemonic, 2 lower-case mnemonic
        Field::Int(_) | Field::Octal(_) | Field::Ip4(_) => 0,
    }
}

/// All choice points of a scenario, in a fixed order.
pub fn choice_points(sc: &Scenario) -> Vec<CpInfo> {
    let mut v = Vec::new();
    let mut push = |cp, nalts| {
        if nalts > 0 {
            v.push(CpInfo { cp, nalts })
        }
    };
    for (i, it) in sc.items.iter().enumerate() {
        let reduced = sc.reduced.contains(&i);
        match it {
            Item::Rec(r) => {
                push(Cp::Pre(i), if reduced { 1 } else { 5 });
                push(Cp::Own(i), 3);
                if !reduced {
                    push(Cp::OwnEsc(i), 3);
                }
                push(Cp::Ttl(i), 1);
                push(Cp::Cls(i), if reduced { 1 } else { 4 });
                push(Cp::Ord(i), 1);
                if !reduced {
                    push(Cp::Typ(i), 3);
                    let nf = native_fields(&r.rd);
                    // native -> 4 generic forms; opaque -> 3 (its default is
                    // already the one-word generic form)
                    push(Cp::RdForm(i), if nf.is_some() { 4 } else { 3 });
                    if let Some(fs) = nf {
                        for (j, f) in fs.iter().enumerate() {
                            push(Cp::Fld(i, j), field_nalts(f));
                        }
                    }
                    push(Cp::Paren(i), PAREN_ALTS);
                    push(Cp::Ws(i), 3);
                }
                push(Cp::Eol(i), if reduced { 2 } else { 5 });
            }
            Item::Origin(_) => {
                push(Cp::DCase(i), 1);
                push(Cp::DName(i), 1);
                push(Cp::DEol(i), 2);
            }
            Item::Ttl(_) => {
                push(Cp::DCase(i), 1);
                push(Cp::DEol(i), 2);
            }
        }
    }
    v
}

/// A set of deviations: (choice point, alternative id >= 1).
#[derive(Clone, Debug, Default)]
pub struct Choices(pub Vec<(Cp, usize)>);

impl Choices {
    #[inline]
    pub fn get(&self, cp: Cp) -> usize {
        for (c, a) in &self.0 {
            if *c == cp {
                return *a;
            }
        }
        0
    }
}

pub struct Rendered {
    pub bytes: Vec<u8>,
    pub expected: Vec<Flat>,
}

#[derive(Default)]
struct Context {
    origin: Option<WName>,
    prev_owner: Option<WName>,
    prev_ttl: Option<u32>,
    prev_class: Option<u16>,
    default_ttl: Option<u32>,
}

fn hex_words(rd: &[u8], form: usize) -> Option<Vec<Vec<u8>>> {
    // form: 1 one word, 2 two words, 3 one word per octet, 4 one word upper case
    let mut words: Vec<Vec<u8>> = vec![b"\\#".to_vec(), rd.len().to_string().into_bytes()];
    if rd.is_empty() {
        return if form == 1 { Some(words) } else { None };
    }
    let hx = qvlib::hex(rd).into_bytes();
    match form {
        1 => words.push(hx),
        2 => {
            if rd.len() < 2 {
                return None;
            }
            let cut = (rd.len() / 2) * 2;
            words.push(hx[..cut].to_vec());
            words.push(hx[cut..].to_vec());
        }
        3 => {
            if rd.len() < 2 || rd.len() > MAX_ANCHOR {
                return None;
            }
            for c in hx.chunks(2) {
                words.push(c.to_vec());
            }
        }
        4 => {
            let up = hx.to_ascii_uppercase();
            if up == hx {
                return None;
            }
            words.push(up);
        }
        _ => return None,
    }
    Some(words)
}

/// Renders the RDATA words of record `i`; returns (words, raw LFs per word).
fn rdata_words(i: usize, r: &Rec, ch: &Choices, ctx: &Context) -> Option<Vec<(Vec<u8>, usize)>> {
    let form = ch.get(Cp::RdForm(i));
    let fields = native_fields(&r.rd);
    let Some(fields) = fields else {
        // opaque: default is generic one word; alts 1..3 map to forms 2..4
        let words = hex_words(&r.rd.wire(), form + 1)?;
        return Some(words.into_iter().map(|w| (w, 0)).collect());
    };
    if form != 0 {
        // field-level choices are meaningless in the generic form
        if ch.0.iter().any(|(c, _)| matches!(c, Cp::Fld(k, _) if *k == i)) {
            return None;
        }
        let words = hex_words(&r.rd.wire(), form)?;
        return Some(words.into_iter().map(|w| (w, 0)).collect());
    }
    let mut out = Vec::new();
    for (j, f) in fields.iter().enumerate() {
        let alt = ch.get(Cp::Fld(i, j));
        let w: (Vec<u8>, usize) = match f {
            Field::Name(n) => match alt {
                0 => (name_abs(n, NameEsc::None)?, 0),
                1 => {
                    let o = ctx.origin.as_ref()?;
                    if n == o {
                        (b"@".to_vec(), 0)
                    } else {
                        (name_rel(n, o, NameEsc::None)?, 0)
                    }
                }
                _ => (name_abs(n, NameEsc::DecFirst)?, 0),
            },
            Field::Str(s) => {
                let form = [StrForm::Quoted, StrForm::Unquoted, StrForm::QuotedAllDec, StrForm::QuotedRaw, StrForm::UnquotedEscFirst][alt];
                let (t, lfs) = charstr_text(s, form)?;
                if form == StrForm::QuotedRaw && t == charstr_text(s, StrForm::Quoted)?.0 {
                    return None; // identical to the default rendering
                }
                if form == StrForm::Unquoted && t == b"\\#" {
                    return None;
                }
                (t, lfs)
            }
            Field::Int(x) => (x.to_string().into_bytes(), 0),
            Field::Octal(x) => (format!("{x:o}").into_bytes(), 0),
            Field::Ip4(a) => (ipv4_text(a).into_bytes(), 0),
            Field::Ip6(a) => {
                let form = [Ip6Form::Canonical, Ip6Form::Full, Ip6Form::Upper, Ip6Form::V4Tail][alt];
                let t = ipv6_text(a, form);
                if alt != 0 && t == ipv6_text(a, Ip6Form::Canonical) {
                    return None;
                }
                (t.into_bytes(), 0)
            }
            Field::Proto(p) => match alt {
                0 => (p.to_string().into_bytes(), 0),
                _ => {
                    let m = match p {
                        6 => "TCP",
                        17 => "UDP",
                        _ => return None,
                    };
                    (if alt == 1 { m.to_string() } else { m.to_ascii_lowercase() }.into_bytes(), 0)
                }
            },
        };
        out.push(w);
    }
    Some(out)
}

fn case_variant(s: &str, alt: usize) -> String {
    // 0 as is (upper), 1 lower
    if alt == 1 {
        s.to_ascii_lowercase()
    } else {
        s.to_string()
    }
}

pub fn render(sc: &Scenario, ch: &Choices) -> Option<Rendered> {
    let mut out: Vec<u8> = Vec::with_capacity(256);
    let mut line = 1usize;
    let mut ctx = Context::default();
    let mut expected = Vec::new();
    let last = sc.items.len() - 1;
    for (i, it) in sc.items.iter().enumerate() {
        match it {
            Item::Origin(n) => {
                let kw = case_variant("$ORIGIN", ch.get(Cp::DCase(i)));
                out.extend_from_slice(kw.as_bytes());
                out.push(b' ');
                if ch.get(Cp::DName(i)) == 1 {
                    let o = ctx.origin.as_ref()?;
                    out.extend_from_slice(&name_rel(n, o, NameEsc::None)?);
                } else {
                    out.extend_from_slice(&name_abs(n, NameEsc::None)?);
                }
                match ch.get(Cp::DEol(i)) {
                    0 => out.push(b'\n'),
                    1 => out.extend_from_slice(b"\r\n"),
                    _ => out.extend_from_slice(b" ; origin (x) \"\n"),
                }
                line += 1;
                ctx.origin = Some(n.clone());
            }
            Item::Ttl(t) => {
                let kw = case_variant("$TTL", ch.get(Cp::DCase(i)));
                out.extend_from_slice(kw.as_bytes());
                out.push(b' ');
                out.extend_from_slice(t.to_string().as_bytes());
                match ch.get(Cp::DEol(i)) {
                    0 => out.push(b'\n'),
                    1 => out.extend_from_slice(b"\r\n"),
                    _ => out.extend_from_slice(b"\t;ttl\n"),
                }
                line += 1;
                ctx.default_ttl = Some(effective_ttl(*t));
            }
            Item::Rec(r) => {
                // lines inserted before the record
                match ch.get(Cp::Pre(i)) {
                    0 => {}
                    1 => {
                        out.push(b'\n');
                        line += 1;
                    }
                    2 => {
                        out.extend_from_slice(b"; comment ( \" \\ line\n");
                        line += 1;
                    }
                    3 => {
                        out.extend_from_slice(b" \t \n");
                        line += 1;
                    }
                    4 => {
                        out.extend_from_slice(b"\r\n");
                        line += 1;
                    }
                    _ => {
                        out.extend_from_slice(b"  ; indented comment\n");
                        line += 1;
                    }
                }
                let rec_line = line;
                // ---- words
                let mut words: Vec<(Vec<u8>, usize)> = Vec::with_capacity(12);
                let own = ch.get(Cp::Own(i));
                let esc = [NameEsc::None, NameEsc::DecFirst, NameEsc::ChrFirst, NameEsc::DecLast][ch.get(Cp::OwnEsc(i))];
                let w0: Vec<u8> = match own {
                    0 => name_abs(&r.owner, esc)?,
                    1 => name_rel(&r.owner, ctx.origin.as_ref()?, esc)?,
                    2 => {
                        if esc != NameEsc::None || ctx.origin.as_ref()? != &r.owner {
                            return None;
                        }
                        b"@".to_vec()
                    }
                    _ => {
                        if esc != NameEsc::None || ctx.prev_owner.as_ref()? != &r.owner {
                            return None;
                        }
                        Vec::new()
                    }
                };
                let blank_owner = own == 3;
                words.push((w0, 0));
                let eff_ttl = effective_ttl(r.ttl);
                let ttl_word = match ch.get(Cp::Ttl(i)) {
                    0 => Some(r.ttl.to_string().into_bytes()),
                    _ => {
                        // RFC 2308 §4 / RFC 1035 §5.1
                        let dflt = ctx.default_ttl.or(ctx.prev_ttl)?;
                        if dflt != eff_ttl {
                            return None;
                        }
                        None
                    }
                };
                let cls_word = match ch.get(Cp::Cls(i)) {
                    1 => {
                        if ctx.prev_class? != r.class {
                            return None;
                        }
                        None
                    }
                    a => {
                        let m = class_mnemonic(r.class);
                        Some(
                            match (a, m) {
                                (0, Some(m)) => m.to_string(),
                                (0, None) => format!("CLASS{}", r.class),
                                (2, Some(m)) => m.to_ascii_lowercase(),
                                (2, None) => format!("class{}", r.class),
                                (3, Some(_)) => format!("CLASS{}", r.class),
                                (4, Some(_)) => format!("cLaSs{}", r.class),
                                _ => return None,
                            }
                            .into_bytes(),
                        )
                    }
                };
                match ch.get(Cp::Ord(i)) {
                    0 => {
                        if let Some(w) = ttl_word {
                            words.push((w, 0));
                        }
                        if let Some(w) = cls_word {
                            words.push((w, 0));
                        }
                    }
                    _ => {
                        let (t, c) = (ttl_word?, cls_word?);
                        words.push((c, 0));
                        words.push((t, 0));
                    }
                }
                let tm = type_mnemonic(r.typ);
                let tw = match (ch.get(Cp::Typ(i)), tm) {
                    (0, Some(m)) => m.to_string(),
                    (0, None) => format!("TYPE{}", r.typ),
                    (1, Some(m)) => m.to_ascii_lowercase(),
                    (1, None) => format!("type{}", r.typ),
                    (2, Some(_)) => format!("TYPE{}", r.typ),
                    (3, Some(_)) => format!("tYpE{}", r.typ),
                    _ => return None,
                };
                words.push((tw.into_bytes(), 0));
                words.extend(rdata_words(i, r, ch, &ctx)?);
                // ---- layout
                let nw = words.len();
                let ws_alt = ch.get(Cp::Ws(i));
                let ws: &[u8] = match ws_alt {
                    1 => b"\t",
                    2 => b"  ",
                    _ => b" ",
                };
                let par = ch.get(Cp::Paren(i));
                // (anchor, style). Per anchor: 0 same line, 1 LF after the
                // open parenthesis, 6 a line break (every second one with a
                // comment) at every gap from the open parenthesis on -- the
                // classic multi-line SOA layout --, 7 parentheses around a
                // single word. At the first gap only: 2 CRLF after open,
                // 3 comment + LF after open, 4 LF before close, 5 tight (no
                // white space around the parentheses).
                let paren: Option<(usize, usize)> = match par {
                    0 => None,
                    p if p <= 4 * MAX_ANCHOR => Some(((p - 1) / 4 + 1, [0, 1, 6, 7][(p - 1) % 4])),
                    p => Some((1, p - 4 * MAX_ANCHOR + 1)),
                };
                if let Some((a, style)) = paren {
                    if a > nw {
                        return None;
                    }
                    if style == 5 && blank_owner {
                        return None;
                    }
                    if (style == 6 || style == 7) && a >= nw {
                        return None;
                    }
                }
                let style = paren.map(|p| p.1).unwrap_or(0);
                let anchor = paren.map(|p| p.0).unwrap_or(usize::MAX);
                out.extend_from_slice(&words[0].0);
                for g in 1..=nw {
                    // gap before word g (g == nw: before the end of the line)
                    let open_here = anchor == g;
                    if style == 6 && anchor < g {
                        if g % 2 == 0 {
                            out.extend_from_slice(b" ; c ( \"\n");
                        } else {
                            out.push(b'\n');
                        }
                        line += 1;
                    }
                    if open_here {
                        if style == 5 {
                            out.push(b'(');
                        } else {
                            out.extend_from_slice(ws);
                            out.push(b'(');
                            match style {
                                1 | 6 => {
                                    out.push(b'\n');
                                    line += 1;
                                }
                                2 => {
                                    out.extend_from_slice(b"\r\n");
                                    line += 1;
                                }
                                3 => {
                                    out.extend_from_slice(b" ; comment ) ( \"\n");
                                    line += 1;
                                }
                                _ => {}
                            }
                            if g < nw {
                                out.extend_from_slice(ws);
                            }
                        }
                    } else if g < nw {
                        out.extend_from_slice(ws);
                    }
                    if g < nw {
                        out.extend_from_slice(&words[g].0);
                        line += words[g].1;
                    }
                    if style == 7 && open_here {
                        out.extend_from_slice(ws);
                        out.push(b')');
                    }
                }
                if paren.is_some() {
                    match style {
                        4 => {
                            out.push(b'\n');
                            line += 1;
                            out.extend_from_slice(ws);
                            out.push(b')');
                        }
                        5 => out.push(b')'),
                        7 => {}
                        _ => {
                            out.extend_from_slice(ws);
                            out.push(b')');
                        }
                    }
                }
                if ws_alt == 3 {
                    out.extend_from_slice(b" \t");
                }
                match ch.get(Cp::Eol(i)) {
                    0 => {
                        out.push(b'\n');
                        line += 1;
                    }
                    1 => {
                        out.extend_from_slice(b"\r\n");
                        line += 1;
                    }
                    2 => {
                        out.extend_from_slice(b" ; comment \" ( \\\n");
                        line += 1;
                    }
                    3 => {
                        // a comment directly after the last field; a quoted
                        // string or a close parenthesis also ends a field
                        out.extend_from_slice(b";c\n");
                        line += 1;
                    }
                    4 => {
                        out.extend_from_slice(b"\t; c\r\n");
                        line += 1;
                    }
                    _ => {
                        // end of file without a line terminator
                        if i != last {
                            return None;
                        }
                    }
                }
                expected.push(Flat { line: rec_line, owner: r.owner.clone(), ttl: eff_ttl, class: r.class, typ: r.typ, rdata: r.rd.wire() });
                ctx.prev_owner = Some(r.owner.clone());
                ctx.prev_ttl = Some(eff_ttl);
                ctx.prev_class = Some(r.class);
            }
        }
    }
    Some(Rendered { bytes: out, expected })
}

/// Calls `f` with every set of at most `k` deviations whose first deviation
/// (if any) is at choice point `first` (`None`: the empty set only).
pub fn for_each_choice_set<F: FnMut(&Choices)>(cps: &[CpInfo], first: Option<usize>, k: usize, f: &mut F) {
    let mut cur = Choices::default();
    match first {
        None => f(&cur),
        Some(i0) => {
            if k == 0 {
                return;
            }
            for a in 1..=cps[i0].nalts {
                cur.0.push((cps[i0].cp, a));
                rec(cps, i0 + 1, k - 1, &mut cur, f);
                cur.0.pop();
            }
        }
    }
    fn rec<F: FnMut(&Choices)>(cps: &[CpInfo], from: usize, left: usize, cur: &mut Choices, f: &mut F) {
        f(cur);
        if left == 0 {
            return;
        }
        for i in from..cps.len() {
            for a in 1..=cps[i].nalts {
                cur.0.push((cps[i].cp, a));
                rec(cps, i + 1, left - 1, cur, f);
                cur.0.pop();
            }
        }
    }
}

pub fn choices_json(ch: &Choices) -> qvlib::Value {
    qvlib::Value::Array(ch.0.iter().map(|(c, a)| qvlib::json!(format!("{c:?}={a}"))).collect())
}
