//! C23 "short-read" family: the parser reads from any `io::Read`, and a
//! stream may answer a read with fewer octets than asked for (pipes, sockets,
//! a file that is being written). What a zone file denotes does not depend on
//! that. The default environment answer is "everything at once"; deviations
//! are short reads. Enumerated completely, per file of the corpus:
//!   * uniform pieces of c octets, c in 1..=8;
//!   * one cut at every position p (two pieces);
//!   * a tiny piece of k in {1, 2, 3} octets at every position p (everything
//!     before p at once, then k octets, then the rest) - the bursty shape;
//! the corpus is every scenario of families F1 and F2 rendered with the
//! default presentation and with each single non-default choice (uniform
//! pieces only for the latter).

use crate::c23::{compare, families};
use crate::render::{choice_points, for_each_choice_set, render, Choices};
use crate::zf;
use qvlib::{json, Ctx, Local};

fn check(l: &mut Local, what: &str, sc_name: &str, bytes: &[u8], expected: &[crate::model::Flat], pieces: &[usize], base_known: bool) {
    l.tick();
    let got = zf::parse_pieces(bytes, pieces);
    let mism: Vec<_> = compare(expected, &got).into_iter().filter(|(k, _)| !(base_known && k == "wks-bitmap-lsb-first")).collect();
    l.outcome(&format!("short-read {what} {}", if mism.is_empty() { "ok" } else { "MISMATCH" }), || json!({"scenario": sc_name, "pieces": pieces.iter().take(8).collect::<Vec<_>>()}));
    for (k, d) in &mism {
        crate::report(l, &format!("short-read:{k}"), || {
            json!({"family": "short-read", "scenario": sc_name, "pieces": pieces, "first_mismatch": d, "file": qvlib::hex(bytes),
                   "file_text": String::from_utf8_lossy(bytes), "expected": expected.iter().map(|f| f.to_json()).collect::<Vec<_>>()})
        });
    }
}

pub fn run(ctx: &Ctx) {
    let fams = families(true);
    let mut jobs: Vec<(usize, usize)> = Vec::new();
    for (fi, f) in fams.iter().enumerate() {
        for si in 0..f.scenarios.len() {
            jobs.push((fi, si));
        }
    }
    let files = std::sync::atomic::AtomicU64::new(0);
    ctx.par_for_each(&jobs, |l: &mut Local, (fi, si)| {
        let sc = &fams[*fi].scenarios[*si];
        let cps = choice_points(sc);
        // default rendering: all schedules
        if let Some(r) = render(sc, &Choices::default()) {
            files.fetch_add(1, std::sync::atomic::Ordering::Relaxed);
            // The WKS bit order finding (known_findings.jsonl) is a property
            // of the file, not of how it is read: it is reported by the main
            // family and left out here.
            let base = zf::parse_bytes(&r.bytes);
            let base_known = compare(&r.expected, &base).iter().any(|(k, _)| k == "wks-bitmap-lsb-first");
            let n = r.bytes.len();
            for c in 1..=8usize {
                let pieces = vec![c; n / c + 1];
                check(l, "uniform", &sc.name, &r.bytes, &r.expected, &pieces, base_known);
            }
            for p in 1..n {
                check(l, "one-cut", &sc.name, &r.bytes, &r.expected, &[p], base_known);
                for k in 1..=3usize {
                    if p + k < n {
                        check(l, "tiny-piece", &sc.name, &r.bytes, &r.expected, &[p, k], base_known);
                    }
                }
            }
        }
        // every single non-default presentation choice: uniform pieces
        for i in 0..cps.len() {
            for_each_choice_set(&cps, Some(i), 1, &mut |ch: &Choices| {
                let Some(r) = render(sc, ch) else { return };
                files.fetch_add(1, std::sync::atomic::Ordering::Relaxed);
                let base = zf::parse_bytes(&r.bytes);
                let base_known = compare(&r.expected, &base).iter().any(|(k, _)| k == "wks-bitmap-lsb-first");
                let n = r.bytes.len();
                for c in [1usize, 2, 3, 5] {
                    let pieces = vec![c; n / c + 1];
                    check(l, "uniform", &sc.name, &r.bytes, &r.expected, &pieces, base_known);
                }
            });
        }
    });
    ctx.set_extra("short_read_files", json!(files.load(std::sync::atomic::Ordering::Relaxed)));
}
